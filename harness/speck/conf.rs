// Speck (all ten variants): conformance to the Simon & Speck paper (C10), round trip (C01), no panic / overflow incl.
// the rotates of 24/48-bit words held in u32/u64 carriers (C20).  Direct queries (D) against refmodels::speck.
//
//   speck_leaf_round   round_function / inverse_round_function of all ten types == R_k / R_k^-1 of the paper.
//                      round_function: x, y satisfy the representation invariant x, y < 2^n (every caller establishes
//                      it: from_be_bytes of n/8 bytes, or an output of round_function; the harness checks that the
//                      outputs are again < 2^n); the round key k carries ARBITRARY garbage above bit n.
//                      inverse_round_function: x, y AND k carry arbitrary garbage above bit n (it masks its arguments
//                      and returns unmasked rotates; consumers look at the low n bits only): results compared mod 2^n.
//   *_ks               KeyInit::new(key).k == key schedule of the paper, all keys
//   *_rounds           ARBITRARY round-key state (full carrier width, garbage above bit n allowed; superset of all
//                      keys) + symbolic block: encrypt_block / decrypt_block == oracle
//   *_rt               arbitrary round-key state: dec(enc(b)) == b, enc(dec(b)) == b
use super::prelude::*;
use crate::{Speck128_128, Speck128_192, Speck128_256, Speck32_64, Speck48_72, Speck48_96, Speck64_128, Speck64_96, Speck96_144, Speck96_96};
use cipher::{BlockCipherDecrypt, BlockCipherEncrypt, KeyInit};
use refmodels::speck as r;

macro_rules! speck_inst {
    ($m:ident, $name:ident, $wt:ty, bb = $bb:expr, kb = $kb:expr, t = $t:expr) => {
        pub mod $m {
            use super::*;
            pub const P: r::Params = r::params($bb, $kb);
            /// bytes per word / per carrier / per key
            pub const NB: usize = $bb / 16;
            pub const CB: usize = core::mem::size_of::<$wt>();
            pub const KB: usize = $kb / 8;
            pub const T: usize = $t;

            /// leaf: inp = k, x, y as u64 (truncated to the carrier)
            pub fn leaf(k: u64, x: u64, y: u64) -> Option<bool> {
                let m = r::mask(P.n);
                let (kk, xx, yy) = (k as $wt, (x & m) as $wt, (y & m) as $wt);
                let (a, b) = $name::round_function(kk, xx, yy);
                let (ea, eb) = r::round(&P, k, x & m, y & m);
                vcheck!(a as u64 == ea && b as u64 == eb && ea <= m && eb <= m);
                // the inverse masks its arguments itself and leaves its results unmasked (the next inverse round, or
                // to_be_bytes, drops the bits above n): arbitrary garbage in, results compared modulo 2^n
                let (a, b) = $name::inverse_round_function(kk, x as $wt, y as $wt);
                let (ea, eb) = r::inv_round(&P, k, x, y);
                vcheck!((a as u64) & m == ea && (b as u64) & m == eb && ea <= m && eb <= m);
                Some(true)
            }

            pub fn ks(inp: &[u8]) -> Option<bool> {
                let key: [u8; KB] = take(inp, 0);
                let c = $name::new(&key.into());
                let rk = r::key_schedule(&P, &key);
                vcheck!(P.t == T);
                let mut i = 0;
                while i < T {
                    vcheck!(c.k[i] as u64 == rk[i]);
                    i += 1;
                }
                Some(true)
            }

            pub fn arb(inp: &[u8]) -> ($name, [u64; r::MAX_T], [u8; 2 * NB]) {
                let mut k: [$wt; T] = [0; T];
                let mut rk = [0u64; r::MAX_T];
                let mut i = 0;
                while i < T {
                    k[i] = <$wt>::from_le_bytes(take::<{ CB }>(inp, CB * i));
                    rk[i] = k[i] as u64;
                    i += 1;
                }
                ($name { k }, rk, take(inp, CB * T))
            }
            fn same(a: &[u8], b: &[u8; 2 * NB]) -> bool {
                let mut ok = a.len() == 2 * NB;
                let mut i = 0;
                while i < 2 * NB {
                    ok &= a[i] == b[i];
                    i += 1;
                }
                ok
            }

            pub fn rounds(inp: &[u8]) -> Option<bool> {
                let (c, rk, blk) = arb(inp);
                let mut b: cipher::Block<$name> = blk.into();
                c.encrypt_block(&mut b);
                let mut e = blk;
                r::crypt_block(&P, &rk, &mut e, false);
                vcheck!(same(&b, &e));
                b = blk.into();
                c.decrypt_block(&mut b);
                e = blk;
                r::crypt_block(&P, &rk, &mut e, true);
                vcheck!(same(&b, &e));
                Some(true)
            }

            pub fn rt(inp: &[u8]) -> Option<bool> {
                let (c, _rk, blk) = arb(inp);
                let mut b: cipher::Block<$name> = blk.into();
                c.encrypt_block(&mut b);
                c.decrypt_block(&mut b);
                vcheck!(same(&b, &blk));
                c.decrypt_block(&mut b);
                c.encrypt_block(&mut b);
                vcheck!(same(&b, &blk));
                Some(true)
            }
        }
    };
}

speck_inst!(s32_64, Speck32_64, u16, bb = 32, kb = 64, t = 22);
speck_inst!(s48_72, Speck48_72, u32, bb = 48, kb = 72, t = 22);
speck_inst!(s48_96, Speck48_96, u32, bb = 48, kb = 96, t = 23);
speck_inst!(s64_96, Speck64_96, u32, bb = 64, kb = 96, t = 26);
speck_inst!(s64_128, Speck64_128, u32, bb = 64, kb = 128, t = 27);
speck_inst!(s96_96, Speck96_96, u64, bb = 96, kb = 96, t = 28);
speck_inst!(s96_144, Speck96_144, u64, bb = 96, kb = 144, t = 29);
speck_inst!(s128_128, Speck128_128, u64, bb = 128, kb = 128, t = 32);
speck_inst!(s128_192, Speck128_192, u64, bb = 128, kb = 192, t = 33);
speck_inst!(s128_256, Speck128_256, u64, bb = 128, kb = 256, t = 34);

//@ harness name=speck_leaf_round prop=C10,C20 tier=quick bits=192 est=60 desc="D: round_function / inverse_round_function of all ten Speck types == R_k / R_k^-1 of the paper (alpha/beta 7/2 for n=16 else 8/3), round_function for all x, y < 2^n and all k incl. garbage above bit n (outputs stay < 2^n); inverse_round_function for all x, y, k incl. garbage above bit n, results modulo 2^n (rotates of 24/48-bit words in u32/u64 carriers)"
verif_harness! {
    name: speck_leaf_round,
    bytes: 24,
    unwind: 40,
    prop: |inp| {
        let (k, x, y) = (take_u64(inp, 0), take_u64(inp, 8), take_u64(inp, 16));
        vcheck!(s32_64::leaf(k, x, y) == Some(true));
        vcheck!(s48_72::leaf(k, x, y) == Some(true));
        vcheck!(s48_96::leaf(k, x, y) == Some(true));
        vcheck!(s64_96::leaf(k, x, y) == Some(true));
        vcheck!(s64_128::leaf(k, x, y) == Some(true));
        vcheck!(s96_96::leaf(k, x, y) == Some(true));
        vcheck!(s96_144::leaf(k, x, y) == Some(true));
        vcheck!(s128_128::leaf(k, x, y) == Some(true));
        vcheck!(s128_192::leaf(k, x, y) == Some(true));
        vcheck!(s128_256::leaf(k, x, y) == Some(true));
        Some(true)
    }
}

// ------------------------------------------------------------------ Speck32/64

//@ harness name=speck32_64_ks prop=C10,C20 tier=quick bits=64 est=60 desc="D: Speck32_64::new(key).k == key schedule of the paper (22 round keys), all 2^64 keys"
verif_harness! {
    name: speck32_64_ks,
    bytes: 8,
    unwind: 40,
    prop: |inp| { s32_64::ks(inp) }
}
//@ harness name=speck32_64_rounds prop=C10,C20 tier=quick bits=384 est=60 desc="D: Speck32_64 encrypt_block / decrypt_block == oracle on an arbitrary round-key state, all blocks"
verif_harness! {
    name: speck32_64_rounds,
    bytes: 48,
    unwind: 40,
    prop: |inp| { s32_64::rounds(inp) }
}
//@ harness name=speck32_64_rt prop=C01,C20 tier=quick bits=384 est=60 desc="D: Speck32_64 both round trips on an arbitrary round-key state, all blocks"
verif_harness! {
    name: speck32_64_rt,
    bytes: 48,
    unwind: 40,
    prop: |inp| { s32_64::rt(inp) }
}

// ------------------------------------------------------------------ Speck48/72

//@ harness name=speck48_72_ks prop=C10,C20 tier=quick bits=72 est=60 desc="D: Speck48_72::new(key).k == key schedule of the paper (22 round keys, 24-bit words in u32), all 2^72 keys"
verif_harness! {
    name: speck48_72_ks,
    bytes: 9,
    unwind: 40,
    prop: |inp| { s48_72::ks(inp) }
}
//@ harness name=speck48_72_rounds prop=C10,C20 tier=quick bits=752 est=60 desc="D: Speck48_72 encrypt_block / decrypt_block == oracle on an arbitrary round-key state (garbage above bit 24 allowed), all blocks"
verif_harness! {
    name: speck48_72_rounds,
    bytes: 94,
    unwind: 40,
    prop: |inp| { s48_72::rounds(inp) }
}
//@ harness name=speck48_72_rt prop=C01,C20 tier=quick bits=752 est=60 desc="D: Speck48_72 both round trips on an arbitrary round-key state, all blocks"
verif_harness! {
    name: speck48_72_rt,
    bytes: 94,
    unwind: 40,
    prop: |inp| { s48_72::rt(inp) }
}

// ------------------------------------------------------------------ Speck48/96

//@ harness name=speck48_96_ks prop=C10,C20 tier=quick bits=96 est=60 desc="D: Speck48_96::new(key).k == key schedule of the paper (23 round keys), all 2^96 keys"
verif_harness! {
    name: speck48_96_ks,
    bytes: 12,
    unwind: 40,
    prop: |inp| { s48_96::ks(inp) }
}
//@ harness name=speck48_96_rounds prop=C10,C20 tier=quick bits=784 est=60 desc="D: Speck48_96 encrypt_block / decrypt_block == oracle on an arbitrary round-key state, all blocks"
verif_harness! {
    name: speck48_96_rounds,
    bytes: 98,
    unwind: 40,
    prop: |inp| { s48_96::rounds(inp) }
}
//@ harness name=speck48_96_rt prop=C01,C20 tier=quick bits=784 est=60 desc="D: Speck48_96 both round trips on an arbitrary round-key state, all blocks"
verif_harness! {
    name: speck48_96_rt,
    bytes: 98,
    unwind: 40,
    prop: |inp| { s48_96::rt(inp) }
}

// ------------------------------------------------------------------ Speck64/96

//@ harness name=speck64_96_ks prop=C10,C20 tier=quick bits=96 est=60 desc="D: Speck64_96::new(key).k == key schedule of the paper (26 round keys), all 2^96 keys"
verif_harness! {
    name: speck64_96_ks,
    bytes: 12,
    unwind: 40,
    prop: |inp| { s64_96::ks(inp) }
}
//@ harness name=speck64_96_rounds prop=C10,C20 tier=quick bits=896 est=60 desc="D: Speck64_96 encrypt_block / decrypt_block == oracle on an arbitrary round-key state, all blocks"
verif_harness! {
    name: speck64_96_rounds,
    bytes: 112,
    unwind: 40,
    prop: |inp| { s64_96::rounds(inp) }
}
//@ harness name=speck64_96_rt prop=C01,C20 tier=quick bits=896 est=60 desc="D: Speck64_96 both round trips on an arbitrary round-key state, all blocks"
verif_harness! {
    name: speck64_96_rt,
    bytes: 112,
    unwind: 40,
    prop: |inp| { s64_96::rt(inp) }
}

// ------------------------------------------------------------------ Speck64/128

//@ harness name=speck64_128_ks prop=C10,C20 tier=quick bits=128 est=60 desc="D: Speck64_128::new(key).k == key schedule of the paper (27 round keys), all 2^128 keys"
verif_harness! {
    name: speck64_128_ks,
    bytes: 16,
    unwind: 40,
    prop: |inp| { s64_128::ks(inp) }
}
//@ harness name=speck64_128_rounds prop=C10,C20 tier=quick bits=928 est=60 desc="D: Speck64_128 encrypt_block / decrypt_block == oracle on an arbitrary round-key state, all blocks"
verif_harness! {
    name: speck64_128_rounds,
    bytes: 116,
    unwind: 40,
    prop: |inp| { s64_128::rounds(inp) }
}
//@ harness name=speck64_128_rt prop=C01,C20 tier=quick bits=928 est=60 desc="D: Speck64_128 both round trips on an arbitrary round-key state, all blocks"
verif_harness! {
    name: speck64_128_rt,
    bytes: 116,
    unwind: 40,
    prop: |inp| { s64_128::rt(inp) }
}

// ------------------------------------------------------------------ Speck96/96

//@ harness name=speck96_96_ks prop=C10,C20 tier=quick bits=96 est=60 desc="D: Speck96_96::new(key).k == key schedule of the paper (28 round keys, 48-bit words in u64), all 2^96 keys"
verif_harness! {
    name: speck96_96_ks,
    bytes: 12,
    unwind: 40,
    prop: |inp| { s96_96::ks(inp) }
}
//@ harness name=speck96_96_rounds prop=C10,C20 tier=quick bits=1888 est=60 desc="D: Speck96_96 encrypt_block / decrypt_block == oracle on an arbitrary round-key state (garbage above bit 48 allowed), all blocks"
verif_harness! {
    name: speck96_96_rounds,
    bytes: 236,
    unwind: 40,
    prop: |inp| { s96_96::rounds(inp) }
}
//@ harness name=speck96_96_rt prop=C01,C20 tier=quick bits=1888 est=60 desc="D: Speck96_96 both round trips on an arbitrary round-key state, all blocks"
verif_harness! {
    name: speck96_96_rt,
    bytes: 236,
    unwind: 40,
    prop: |inp| { s96_96::rt(inp) }
}

// ------------------------------------------------------------------ Speck96/144

//@ harness name=speck96_144_ks prop=C10,C20 tier=quick bits=144 est=60 desc="D: Speck96_144::new(key).k == key schedule of the paper (29 round keys), all 2^144 keys"
verif_harness! {
    name: speck96_144_ks,
    bytes: 18,
    unwind: 40,
    prop: |inp| { s96_144::ks(inp) }
}
//@ harness name=speck96_144_rounds prop=C10,C20 tier=quick bits=1952 est=60 desc="D: Speck96_144 encrypt_block / decrypt_block == oracle on an arbitrary round-key state, all blocks"
verif_harness! {
    name: speck96_144_rounds,
    bytes: 244,
    unwind: 40,
    prop: |inp| { s96_144::rounds(inp) }
}
//@ harness name=speck96_144_rt prop=C01,C20 tier=quick bits=1952 est=60 desc="D: Speck96_144 both round trips on an arbitrary round-key state, all blocks"
verif_harness! {
    name: speck96_144_rt,
    bytes: 244,
    unwind: 40,
    prop: |inp| { s96_144::rt(inp) }
}

// ------------------------------------------------------------------ Speck128/128

//@ harness name=speck128_128_ks prop=C10,C20 tier=quick bits=128 est=60 desc="D: Speck128_128::new(key).k == key schedule of the paper (32 round keys), all 2^128 keys"
verif_harness! {
    name: speck128_128_ks,
    bytes: 16,
    unwind: 40,
    prop: |inp| { s128_128::ks(inp) }
}
//@ harness name=speck128_128_rounds prop=C10,C20 tier=quick bits=2176 est=60 desc="D: Speck128_128 encrypt_block / decrypt_block == oracle on an arbitrary round-key state, all blocks"
verif_harness! {
    name: speck128_128_rounds,
    bytes: 272,
    unwind: 40,
    prop: |inp| { s128_128::rounds(inp) }
}
//@ harness name=speck128_128_rt prop=C01,C20 tier=quick bits=2176 est=60 desc="D: Speck128_128 both round trips on an arbitrary round-key state, all blocks"
verif_harness! {
    name: speck128_128_rt,
    bytes: 272,
    unwind: 40,
    prop: |inp| { s128_128::rt(inp) }
}

// ------------------------------------------------------------------ Speck128/192

//@ harness name=speck128_192_ks prop=C10,C20 tier=quick bits=192 est=60 desc="D: Speck128_192::new(key).k == key schedule of the paper (33 round keys), all 2^192 keys"
verif_harness! {
    name: speck128_192_ks,
    bytes: 24,
    unwind: 40,
    prop: |inp| { s128_192::ks(inp) }
}
//@ harness name=speck128_192_rounds prop=C10,C20 tier=quick bits=2240 est=60 desc="D: Speck128_192 encrypt_block / decrypt_block == oracle on an arbitrary round-key state, all blocks"
verif_harness! {
    name: speck128_192_rounds,
    bytes: 280,
    unwind: 40,
    prop: |inp| { s128_192::rounds(inp) }
}
//@ harness name=speck128_192_rt prop=C01,C20 tier=quick bits=2240 est=60 desc="D: Speck128_192 both round trips on an arbitrary round-key state, all blocks"
verif_harness! {
    name: speck128_192_rt,
    bytes: 280,
    unwind: 40,
    prop: |inp| { s128_192::rt(inp) }
}

// ------------------------------------------------------------------ Speck128/256

//@ harness name=speck128_256_ks prop=C10,C20 tier=quick bits=256 est=60 desc="D: Speck128_256::new(key).k == key schedule of the paper (34 round keys), all 2^256 keys"
verif_harness! {
    name: speck128_256_ks,
    bytes: 32,
    unwind: 40,
    prop: |inp| { s128_256::ks(inp) }
}
//@ harness name=speck128_256_rounds prop=C10,C20 tier=quick bits=2304 est=60 desc="D: Speck128_256 encrypt_block / decrypt_block == oracle on an arbitrary round-key state, all blocks"
verif_harness! {
    name: speck128_256_rounds,
    bytes: 288,
    unwind: 40,
    prop: |inp| { s128_256::rounds(inp) }
}
//@ harness name=speck128_256_rt prop=C01,C20 tier=quick bits=2304 est=60 desc="D: Speck128_256 both round trips on an arbitrary round-key state, all blocks"
verif_harness! {
    name: speck128_256_rt,
    bytes: 288,
    unwind: 40,
    prop: |inp| { s128_256::rt(inp) }
}

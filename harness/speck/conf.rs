// Speck (all ten variants): conformance to the Simon & Speck paper (C10), round trip (C01), no panic / overflow incl.
// the rotates of 24/48-bit words held in u32/u64 carriers (C20).  Oracle: refmodels::speck.  Blocks of 32..64 bits:
// direct queries (D); blocks of 96 / 128 bits: leaf lemmas + wiring with the round function uninterpreted (W).
//
//   speck_leaf_round   round_function / inverse_round_function of all ten types == R_k / R_k^-1 of the paper.
//                      round_function: x, y satisfy the representation invariant x, y < 2^n (every caller establishes
//                      it: from_be_bytes of n/8 bytes, or an output of round_function; the harness checks that the
//                      outputs are again < 2^n); the round key k carries ARBITRARY garbage above bit n.
//                      inverse_round_function: x, y AND k carry arbitrary garbage above bit n (it masks its arguments
//                      and returns unmasked rotates; consumers look at the low n bits only): results compared mod 2^n.
//   *_ks               KeyInit::new(key).k == key schedule of the paper, all keys
//   *_rounds           ARBITRARY round-key state (full carrier width, garbage above bit n allowed; superset of all
//                      keys) + symbolic block: encrypt_block / decrypt_block == oracle
//   *_rt               D: arbitrary round-key state: dec(enc(b)) == b, enc(dec(b)) == b
//   speck_leaf_inverse L: for every type, every k, x, y: round_function(k, .) and inverse_round_function(k, .) are
//                      mutually inverse modulo 2^n (with the garbage conventions above) -- what the W queries assume
//   *_w_*              W (96- and 128-bit blocks; the direct queries do not finish there -- Speck128/128 D round trip
//                      > 30 min -- so these variants have W harnesses only): the same statements with round_function /
//                      inverse_round_function uninterpreted (module ufs): pass 1 logs (k, args, result) of every call,
//                      the i-th call of pass 2 is constrained against the ONE logged call the round structure pairs
//                      it with -- equal arguments => equal results when both passes run the same function (conformance:
//                      implementation, then oracle with the same uninterpreted leaf), or the inverse relation of the
//                      leaf lemma when pass 2 undoes pass 1 (round trips).  Every assumed implication holds for the real
//                      functions whatever the pairing, so a wrong pairing can only cause a spurious counterexample.
use super::prelude::*;
use crate::{Speck128_128, Speck128_192, Speck128_256, Speck32_64, Speck48_72, Speck48_96, Speck64_128, Speck64_96, Speck96_144, Speck96_96};
use cipher::{BlockCipherDecrypt, BlockCipherEncrypt, KeyInit};
use refmodels::speck as r;


#[cfg(kani)]
pub mod ufs {
    // one pass has at most 34 calls (Speck128/256).  Static arrays of <= 64 elements with constant indices.
    pub static mut K: [u64; 34] = [0; 34];
    pub static mut A0: [u64; 34] = [0; 34];
    pub static mut A1: [u64; 34] = [0; 34];
    pub static mut B0: [u64; 34] = [0; 34];
    pub static mut B1: [u64; 34] = [0; 34];
    pub static mut N: usize = 0;
    pub static mut HALF: usize = 0;
    pub static mut MASK: u64 = 0;
    pub static mut INVERSE_PAIRING: bool = false;
    /// half: calls per pass; mask: 2^n - 1; inverse_pairing: pass 2 runs the other function, last round first
    pub fn setup(half: usize, mask: u64, inverse_pairing: bool) {
        unsafe {
            N = 0;
            HALF = half;
            MASK = mask;
            INVERSE_PAIRING = inverse_pairing;
        }
    }
    /// fwd: round_function, else inverse_round_function; (k, x, y) -> result
    pub fn call(fwd: bool, k: u64, x: u64, y: u64) -> (u64, u64) {
        unsafe {
            let r: (u64, u64) = (kani::any(), kani::any());
            let m = MASK;
            let n = N;
            kani::assert(HALF <= 34 && n < 2 * HALF, "VERIF_UF_CAPACITY");
            if fwd {
                // round_function masks both results (leaf lemma speck_leaf_round: outputs < 2^n)
                kani::assume((r.0 & !m == 0) & (r.1 & !m == 0));
            }
            if n < HALF {
                K[n] = k;
                A0[n] = x;
                A1[n] = y;
                B0[n] = r.0;
                B1[n] = r.1;
            } else if !INVERSE_PAIRING {
                // same function, same arguments => same result
                let e = n - HALF;
                let (ke, a0, a1, b0, b1) = (K[e], A0[e], A1[e], B0[e], B1[e]);
                kani::assume(!((ke == k) & (a0 == x) & (a1 == y)) | ((b0 == r.0) & (b1 == r.1)));
            } else {
                // entry e: F(k, A) = B logged in pass 1 (F = the other function); this call G(k, x, y) with
                // (x, y) == B modulo 2^n must return A modulo 2^n (leaf lemma speck_leaf_inverse).
                let e = 2 * HALF - 1 - n;
                let (ke, a0, a1, b0, b1) = (K[e], A0[e], A1[e], B0[e], B1[e]);
                let hit = if fwd {
                    // G = round_function wants clean arguments: x, y equal the logged results reduced mod 2^n
                    (ke == k) & (x == b0 & m) & (y == b1 & m)
                } else {
                    (ke == k) & (x & m == b0 & m) & (y & m == b1 & m)
                };
                kani::assume(!hit | ((r.0 & m == a0 & m) & (r.1 & m == a1 & m)));
            }
            N = n + 1;
            r
        }
    }
}
#[cfg(kani)]
fn ufs_setup(half: usize, mask: u64, inverse_pairing: bool) {
    ufs::setup(half, mask, inverse_pairing)
}
#[cfg(not(kani))]
fn ufs_setup(_half: usize, _mask: u64, _inverse_pairing: bool) {}

macro_rules! speck_inst {
    ($m:ident, $name:ident, $wt:ty, bb = $bb:expr, kb = $kb:expr, t = $t:expr) => {
        pub mod $m {
            use super::*;
            pub const P: r::Params = r::params($bb, $kb);
            /// bytes per word / per carrier / per key
            pub const NB: usize = $bb / 16;
            pub const CB: usize = core::mem::size_of::<$wt>();
            pub const KB: usize = $kb / 8;
            pub const T: usize = $t;

            /// leaf: inp = k, x, y as u64 (truncated to the carrier)
            pub fn leaf(k: u64, x: u64, y: u64) -> Option<bool> {
                let m = r::mask(P.n);
                let (kk, xx, yy) = (k as $wt, (x & m) as $wt, (y & m) as $wt);
                let (a, b) = $name::round_function(kk, xx, yy);
                let (ea, eb) = r::round(&P, k, x & m, y & m);
                vcheck!(a as u64 == ea && b as u64 == eb && ea <= m && eb <= m);
                // the inverse masks its arguments itself and leaves its results unmasked (the next inverse round, or
                // to_be_bytes, drops the bits above n): arbitrary garbage in, results compared modulo 2^n
                let (a, b) = $name::inverse_round_function(kk, x as $wt, y as $wt);
                let (ea, eb) = r::inv_round(&P, k, x, y);
                vcheck!((a as u64) & m == ea && (b as u64) & m == eb && ea <= m && eb <= m);
                Some(true)
            }


            /// leaf lemma for the W round trips: mutual inverse modulo 2^n
            pub fn leaf_inv(k: u64, x: u64, y: u64) -> Option<bool> {
                let m = r::mask(P.n);
                let kk = k as $wt;
                // (1) any k, any x, y (garbage allowed): round(k, inverse(k, x, y) mod 2^n) == (x, y) mod 2^n
                let (a0, a1) = $name::inverse_round_function(kk, x as $wt, y as $wt);
                let (b0, b1) = $name::round_function(kk, ((a0 as u64) & m) as $wt, ((a1 as u64) & m) as $wt);
                vcheck!(b0 as u64 == x & m && b1 as u64 == y & m);
                // (2) any k, clean x, y: inverse(k, round(k, x, y)) == (x, y) modulo 2^n
                let (c0, c1) = $name::round_function(kk, (x & m) as $wt, (y & m) as $wt);
                let (d0, d1) = $name::inverse_round_function(kk, c0, c1);
                vcheck!((d0 as u64) & m == x & m && (d1 as u64) & m == y & m);
                Some(true)
            }

            #[cfg(kani)]
            pub fn stub_rf(k: $wt, x: $wt, y: $wt) -> ($wt, $wt) {
                let (a, b) = ufs::call(true, k as u64, x as u64, y as u64);
                (a as $wt, b as $wt)
            }
            #[cfg(kani)]
            pub fn stub_irf(k: $wt, x: $wt, y: $wt) -> ($wt, $wt) {
                let (a, b) = ufs::call(false, k as u64, x as u64, y as u64);
                (a as $wt, b as $wt)
            }
            // native replay: never installed as stubs; the oracle side uses its own leaves (orf / oirf below)
            #[cfg(not(kani))]
            pub fn stub_rf(k: $wt, x: $wt, y: $wt) -> ($wt, $wt) {
                $name::round_function(k, x, y)
            }
            #[cfg(not(kani))]
            pub fn stub_irf(k: $wt, x: $wt, y: $wt) -> ($wt, $wt) {
                $name::inverse_round_function(k, x, y)
            }
            /// the oracle's leaf: uninterpreted (shared with the implementation) under Kani, the oracle's own natively
            #[cfg(kani)]
            fn orf(k: u64, x: u64, y: u64) -> (u64, u64) {
                let (a, b) = ufs::call(true, (k as $wt) as u64, (x as $wt) as u64, (y as $wt) as u64);
                ((a as $wt) as u64, (b as $wt) as u64)
            }
            #[cfg(kani)]
            fn oirf(k: u64, x: u64, y: u64) -> (u64, u64) {
                let (a, b) = ufs::call(false, (k as $wt) as u64, (x as $wt) as u64, (y as $wt) as u64);
                ((a as $wt) as u64, (b as $wt) as u64)
            }
            #[cfg(not(kani))]
            fn orf(k: u64, x: u64, y: u64) -> (u64, u64) {
                r::round(&P, k, x, y)
            }
            #[cfg(not(kani))]
            fn oirf(k: u64, x: u64, y: u64) -> (u64, u64) {
                r::inv_round(&P, k, x, y)
            }

            pub fn ks_w(inp: &[u8]) -> Option<bool> {
                ufs_setup(T - 1, r::mask(P.n), false);
                let key: [u8; KB] = take(inp, 0);
                let c = $name::new(&key.into());
                let rk = r::key_schedule_with(&P, &key, orf);
                let mut i = 0;
                while i < T {
                    vcheck!(c.k[i] as u64 == rk[i]);
                    i += 1;
                }
                Some(true)
            }
            pub fn enc_w(inp: &[u8]) -> Option<bool> {
                ufs_setup(T, r::mask(P.n), false);
                let (c, rk, blk) = arb(inp);
                let mut b: cipher::Block<$name> = blk.into();
                c.encrypt_block(&mut b);
                let mut e = blk;
                r::crypt_block_with(&P, &rk, &mut e, false, orf);
                Some(same(&b, &e))
            }
            pub fn dec_w(inp: &[u8]) -> Option<bool> {
                ufs_setup(T, r::mask(P.n), false);
                let (c, rk, blk) = arb(inp);
                let mut b: cipher::Block<$name> = blk.into();
                c.decrypt_block(&mut b);
                let mut e = blk;
                r::crypt_block_with(&P, &rk, &mut e, true, oirf);
                Some(same(&b, &e))
            }
            pub fn rounds_w(inp: &[u8]) -> Option<bool> {
                vcheck!(enc_w(inp) == Some(true));
                dec_w(inp)
            }
            pub fn rt_w(inp: &[u8]) -> Option<bool> {
                vcheck!(rt_w_ed(inp) == Some(true));
                rt_w_de(inp)
            }
            pub fn rt_w_ed(inp: &[u8]) -> Option<bool> {
                ufs_setup(T, r::mask(P.n), true);
                let (c, _rk, blk) = arb(inp);
                let mut b: cipher::Block<$name> = blk.into();
                c.encrypt_block(&mut b);
                c.decrypt_block(&mut b);
                Some(same(&b, &blk))
            }
            pub fn rt_w_de(inp: &[u8]) -> Option<bool> {
                ufs_setup(T, r::mask(P.n), true);
                let (c, _rk, blk) = arb(inp);
                let mut b: cipher::Block<$name> = blk.into();
                c.decrypt_block(&mut b);
                c.encrypt_block(&mut b);
                Some(same(&b, &blk))
            }

            pub fn ks(inp: &[u8]) -> Option<bool> {
                let key: [u8; KB] = take(inp, 0);
                let c = $name::new(&key.into());
                let rk = r::key_schedule(&P, &key);
                vcheck!(P.t == T);
                let mut i = 0;
                while i < T {
                    vcheck!(c.k[i] as u64 == rk[i]);
                    i += 1;
                }
                Some(true)
            }

            pub fn arb(inp: &[u8]) -> ($name, [u64; r::MAX_T], [u8; 2 * NB]) {
                let mut k: [$wt; T] = [0; T];
                let mut rk = [0u64; r::MAX_T];
                let mut i = 0;
                while i < T {
                    k[i] = <$wt>::from_le_bytes(take::<{ CB }>(inp, CB * i));
                    rk[i] = k[i] as u64;
                    i += 1;
                }
                ($name { k }, rk, take(inp, CB * T))
            }
            fn same(a: &[u8], b: &[u8; 2 * NB]) -> bool {
                let mut ok = a.len() == 2 * NB;
                let mut i = 0;
                while i < 2 * NB {
                    ok &= a[i] == b[i];
                    i += 1;
                }
                ok
            }

            pub fn rounds(inp: &[u8]) -> Option<bool> {
                let (c, rk, blk) = arb(inp);
                let mut b: cipher::Block<$name> = blk.into();
                c.encrypt_block(&mut b);
                let mut e = blk;
                r::crypt_block(&P, &rk, &mut e, false);
                vcheck!(same(&b, &e));
                b = blk.into();
                c.decrypt_block(&mut b);
                e = blk;
                r::crypt_block(&P, &rk, &mut e, true);
                vcheck!(same(&b, &e));
                Some(true)
            }

            pub fn rt(inp: &[u8]) -> Option<bool> {
                let (c, _rk, blk) = arb(inp);
                let mut b: cipher::Block<$name> = blk.into();
                c.encrypt_block(&mut b);
                c.decrypt_block(&mut b);
                vcheck!(same(&b, &blk));
                c.decrypt_block(&mut b);
                c.encrypt_block(&mut b);
                vcheck!(same(&b, &blk));
                Some(true)
            }
        }
    };
}

speck_inst!(s32_64, Speck32_64, u16, bb = 32, kb = 64, t = 22);
speck_inst!(s48_72, Speck48_72, u32, bb = 48, kb = 72, t = 22);
speck_inst!(s48_96, Speck48_96, u32, bb = 48, kb = 96, t = 23);
speck_inst!(s64_96, Speck64_96, u32, bb = 64, kb = 96, t = 26);
speck_inst!(s64_128, Speck64_128, u32, bb = 64, kb = 128, t = 27);
speck_inst!(s96_96, Speck96_96, u64, bb = 96, kb = 96, t = 28);
speck_inst!(s96_144, Speck96_144, u64, bb = 96, kb = 144, t = 29);
speck_inst!(s128_128, Speck128_128, u64, bb = 128, kb = 128, t = 32);
speck_inst!(s128_192, Speck128_192, u64, bb = 128, kb = 192, t = 33);
speck_inst!(s128_256, Speck128_256, u64, bb = 128, kb = 256, t = 34);

//@ harness name=speck_leaf_round prop=C10,C20 tier=quick bits=192 est=10 desc="D: round_function / inverse_round_function of all ten Speck types == R_k / R_k^-1 of the paper (alpha/beta 7/2 for n=16 else 8/3), round_function for all x, y < 2^n and all k incl. garbage above bit n (outputs stay < 2^n); inverse_round_function for all x, y, k incl. garbage above bit n, results modulo 2^n (rotates of 24/48-bit words in u32/u64 carriers)"
verif_harness! {
    name: speck_leaf_round,
    bytes: 24,
    unwind: 40,
    prop: |inp| {
        let (k, x, y) = (take_u64(inp, 0), take_u64(inp, 8), take_u64(inp, 16));
        vcheck!(s32_64::leaf(k, x, y) == Some(true));
        vcheck!(s48_72::leaf(k, x, y) == Some(true));
        vcheck!(s48_96::leaf(k, x, y) == Some(true));
        vcheck!(s64_96::leaf(k, x, y) == Some(true));
        vcheck!(s64_128::leaf(k, x, y) == Some(true));
        vcheck!(s96_96::leaf(k, x, y) == Some(true));
        vcheck!(s96_144::leaf(k, x, y) == Some(true));
        vcheck!(s128_128::leaf(k, x, y) == Some(true));
        vcheck!(s128_192::leaf(k, x, y) == Some(true));
        vcheck!(s128_256::leaf(k, x, y) == Some(true));
        Some(true)
    }
}

//@ harness name=speck_leaf_inverse prop=C01,C10,C20 tier=quick bits=192 est=15 desc="L: for all ten Speck types, every k, x, y: round_function(k, inverse_round_function(k, x, y) mod 2^n) == (x, y) mod 2^n (garbage above bit n allowed in k, x, y) and inverse_round_function(k, round_function(k, x, y)) == (x, y) mod 2^n for x, y < 2^n"
verif_harness! {
    name: speck_leaf_inverse,
    bytes: 24,
    unwind: 40,
    prop: |inp| {
        let (k, x, y) = (take_u64(inp, 0), take_u64(inp, 8), take_u64(inp, 16));
        vcheck!(s32_64::leaf_inv(k, x, y) == Some(true));
        vcheck!(s48_72::leaf_inv(k, x, y) == Some(true));
        vcheck!(s48_96::leaf_inv(k, x, y) == Some(true));
        vcheck!(s64_96::leaf_inv(k, x, y) == Some(true));
        vcheck!(s64_128::leaf_inv(k, x, y) == Some(true));
        vcheck!(s96_96::leaf_inv(k, x, y) == Some(true));
        vcheck!(s96_144::leaf_inv(k, x, y) == Some(true));
        vcheck!(s128_128::leaf_inv(k, x, y) == Some(true));
        vcheck!(s128_192::leaf_inv(k, x, y) == Some(true));
        vcheck!(s128_256::leaf_inv(k, x, y) == Some(true));
        Some(true)
    }
}

// ------------------------------------------------------------------ Speck32_64

//@ harness name=speck32_64_ks prop=C10,C20 tier=quick bits=64 est=20 desc="D: Speck32_64::new(key).k == key schedule of the paper (22 round keys, 16-bit words), all 2^64 keys"
verif_harness! {
    name: speck32_64_ks,
    bytes: 8,
    unwind: 40,
    prop: |inp| { s32_64::ks(inp) }
}
//@ harness name=speck32_64_rounds prop=C10,C20 tier=quick bits=384 est=20 desc="D: Speck32_64 encrypt_block / decrypt_block == oracle on an ARBITRARY round-key state (garbage above bit 16 allowed), all blocks"
verif_harness! {
    name: speck32_64_rounds,
    bytes: 48,
    unwind: 40,
    prop: |inp| { s32_64::rounds(inp) }
}
//@ harness name=speck32_64_rt prop=C01,C20 tier=quick bits=384 est=95 desc="D: Speck32_64 dec(enc(b)) == b and enc(dec(b)) == b on an ARBITRARY round-key state, all blocks"
verif_harness! {
    name: speck32_64_rt,
    bytes: 48,
    unwind: 40,
    prop: |inp| { s32_64::rt(inp) }
}

// ------------------------------------------------------------------ Speck48_72

//@ harness name=speck48_72_ks prop=C10,C20 tier=quick bits=72 est=25 desc="D: Speck48_72::new(key).k == key schedule of the paper (22 round keys, 24-bit words), all 2^72 keys"
verif_harness! {
    name: speck48_72_ks,
    bytes: 9,
    unwind: 40,
    prop: |inp| { s48_72::ks(inp) }
}
//@ harness name=speck48_72_rounds prop=C10,C20 tier=quick bits=752 est=30 desc="D: Speck48_72 encrypt_block / decrypt_block == oracle on an ARBITRARY round-key state (garbage above bit 24 allowed), all blocks"
verif_harness! {
    name: speck48_72_rounds,
    bytes: 94,
    unwind: 40,
    prop: |inp| { s48_72::rounds(inp) }
}
//@ harness name=speck48_72_rt prop=C01,C20 tier=quick bits=752 est=75 desc="D: Speck48_72 dec(enc(b)) == b and enc(dec(b)) == b on an ARBITRARY round-key state, all blocks"
verif_harness! {
    name: speck48_72_rt,
    bytes: 94,
    unwind: 40,
    prop: |inp| { s48_72::rt(inp) }
}

// ------------------------------------------------------------------ Speck48_96

//@ harness name=speck48_96_ks prop=C10,C20 tier=quick bits=96 est=25 desc="D: Speck48_96::new(key).k == key schedule of the paper (23 round keys, 24-bit words), all 2^96 keys"
verif_harness! {
    name: speck48_96_ks,
    bytes: 12,
    unwind: 40,
    prop: |inp| { s48_96::ks(inp) }
}
//@ harness name=speck48_96_rounds prop=C10,C20 tier=quick bits=784 est=35 desc="D: Speck48_96 encrypt_block / decrypt_block == oracle on an ARBITRARY round-key state (garbage above bit 24 allowed), all blocks"
verif_harness! {
    name: speck48_96_rounds,
    bytes: 98,
    unwind: 40,
    prop: |inp| { s48_96::rounds(inp) }
}
//@ harness name=speck48_96_rt prop=C01,C20 tier=quick bits=784 est=95 desc="D: Speck48_96 dec(enc(b)) == b and enc(dec(b)) == b on an ARBITRARY round-key state, all blocks"
verif_harness! {
    name: speck48_96_rt,
    bytes: 98,
    unwind: 40,
    prop: |inp| { s48_96::rt(inp) }
}

// ------------------------------------------------------------------ Speck64_96

//@ harness name=speck64_96_ks prop=C10,C20 tier=quick bits=96 est=30 desc="D: Speck64_96::new(key).k == key schedule of the paper (26 round keys, 32-bit words), all 2^96 keys"
verif_harness! {
    name: speck64_96_ks,
    bytes: 12,
    unwind: 40,
    prop: |inp| { s64_96::ks(inp) }
}
//@ harness name=speck64_96_rounds prop=C10,C20 tier=quick bits=896 est=40 desc="D: Speck64_96 encrypt_block / decrypt_block == oracle on an ARBITRARY round-key state (garbage above bit 32 allowed), all blocks"
verif_harness! {
    name: speck64_96_rounds,
    bytes: 112,
    unwind: 40,
    prop: |inp| { s64_96::rounds(inp) }
}
//@ harness name=speck64_96_rt prop=C01,C20 tier=quick bits=896 est=130 desc="D: Speck64_96 dec(enc(b)) == b and enc(dec(b)) == b on an ARBITRARY round-key state, all blocks"
verif_harness! {
    name: speck64_96_rt,
    bytes: 112,
    unwind: 40,
    prop: |inp| { s64_96::rt(inp) }
}

// ------------------------------------------------------------------ Speck64_128

//@ harness name=speck64_128_ks prop=C10,C20 tier=quick bits=128 est=30 desc="D: Speck64_128::new(key).k == key schedule of the paper (27 round keys, 32-bit words), all 2^128 keys"
verif_harness! {
    name: speck64_128_ks,
    bytes: 16,
    unwind: 40,
    prop: |inp| { s64_128::ks(inp) }
}
//@ harness name=speck64_128_rounds prop=C10,C20 tier=quick bits=928 est=45 desc="D: Speck64_128 encrypt_block / decrypt_block == oracle on an ARBITRARY round-key state (garbage above bit 32 allowed), all blocks"
verif_harness! {
    name: speck64_128_rounds,
    bytes: 116,
    unwind: 40,
    prop: |inp| { s64_128::rounds(inp) }
}
//@ harness name=speck64_128_rt prop=C01,C20 tier=quick bits=928 est=200 desc="D: Speck64_128 dec(enc(b)) == b and enc(dec(b)) == b on an ARBITRARY round-key state, all blocks"
verif_harness! {
    name: speck64_128_rt,
    bytes: 116,
    unwind: 40,
    prop: |inp| { s64_128::rt(inp) }
}

// ------------------------------------------------------------------ Speck96_96

//@ harness name=speck96_96_w_ks prop=C10,C20 tier=quick bits=96 stub=1 est=15 desc="W: Speck96_96::new(key).k == key schedule of the paper (28 round keys, 48-bit words in u64) with round_function uninterpreted (shared with the oracle: (l_(i+m-1), k_(i+1)) = R_i(l_i, k_i)), all keys"
verif_harness! {
    name: speck96_96_w_ks,
    bytes: 12,
    unwind: 40,
    stubs: [(crate::Speck96_96::round_function, s96_96::stub_rf), (crate::Speck96_96::inverse_round_function, s96_96::stub_irf)],
    prop: |inp| { s96_96::ks_w(inp) }
}
//@ harness name=speck96_96_w_rounds prop=C10,C20 tier=quick bits=1888 stub=1 est=25 desc="W: Speck96_96 encrypt_block and decrypt_block == oracle (28 rounds, round keys in reverse, byte order) on an ARBITRARY round-key state, all blocks; round_function / inverse_round_function uninterpreted, shared with the oracle"
verif_harness! {
    name: speck96_96_w_rounds,
    bytes: 236,
    unwind: 40,
    stubs: [(crate::Speck96_96::round_function, s96_96::stub_rf), (crate::Speck96_96::inverse_round_function, s96_96::stub_irf)],
    prop: |inp| { s96_96::rounds_w(inp) }
}
//@ harness name=speck96_96_w_rt prop=C01,C20 tier=quick bits=1888 stub=1 est=40 desc="W: Speck96_96 decrypt_block(encrypt_block(b)) == b and encrypt_block(decrypt_block(b)) == b on an ARBITRARY round-key state, all blocks; round_function / inverse_round_function uninterpreted mutual inverses (leaf lemma speck_leaf_inverse)"
verif_harness! {
    name: speck96_96_w_rt,
    bytes: 236,
    unwind: 40,
    stubs: [(crate::Speck96_96::round_function, s96_96::stub_rf), (crate::Speck96_96::inverse_round_function, s96_96::stub_irf)],
    prop: |inp| { s96_96::rt_w(inp) }
}

// ------------------------------------------------------------------ Speck96_144

//@ harness name=speck96_144_w_ks prop=C10,C20 tier=quick bits=144 stub=1 est=20 desc="W: Speck96_144::new(key).k == key schedule of the paper (29 round keys, 48-bit words in u64) with round_function uninterpreted (shared with the oracle: (l_(i+m-1), k_(i+1)) = R_i(l_i, k_i)), all keys"
verif_harness! {
    name: speck96_144_w_ks,
    bytes: 18,
    unwind: 40,
    stubs: [(crate::Speck96_144::round_function, s96_144::stub_rf), (crate::Speck96_144::inverse_round_function, s96_144::stub_irf)],
    prop: |inp| { s96_144::ks_w(inp) }
}
//@ harness name=speck96_144_w_rounds prop=C10,C20 tier=quick bits=1952 stub=1 est=25 desc="W: Speck96_144 encrypt_block and decrypt_block == oracle (29 rounds, round keys in reverse, byte order) on an ARBITRARY round-key state, all blocks; round_function / inverse_round_function uninterpreted, shared with the oracle"
verif_harness! {
    name: speck96_144_w_rounds,
    bytes: 244,
    unwind: 40,
    stubs: [(crate::Speck96_144::round_function, s96_144::stub_rf), (crate::Speck96_144::inverse_round_function, s96_144::stub_irf)],
    prop: |inp| { s96_144::rounds_w(inp) }
}
//@ harness name=speck96_144_w_rt prop=C01,C20 tier=quick bits=1952 stub=1 est=40 desc="W: Speck96_144 decrypt_block(encrypt_block(b)) == b and encrypt_block(decrypt_block(b)) == b on an ARBITRARY round-key state, all blocks; round_function / inverse_round_function uninterpreted mutual inverses (leaf lemma speck_leaf_inverse)"
verif_harness! {
    name: speck96_144_w_rt,
    bytes: 244,
    unwind: 40,
    stubs: [(crate::Speck96_144::round_function, s96_144::stub_rf), (crate::Speck96_144::inverse_round_function, s96_144::stub_irf)],
    prop: |inp| { s96_144::rt_w(inp) }
}

// ------------------------------------------------------------------ Speck128_128

//@ harness name=speck128_128_w_ks prop=C10,C20 tier=quick bits=128 stub=1 est=15 desc="W: Speck128_128::new(key).k == key schedule of the paper (32 round keys, 64-bit words in u64) with round_function uninterpreted (shared with the oracle: (l_(i+m-1), k_(i+1)) = R_i(l_i, k_i)), all keys"
verif_harness! {
    name: speck128_128_w_ks,
    bytes: 16,
    unwind: 40,
    stubs: [(crate::Speck128_128::round_function, s128_128::stub_rf), (crate::Speck128_128::inverse_round_function, s128_128::stub_irf)],
    prop: |inp| { s128_128::ks_w(inp) }
}
//@ harness name=speck128_128_w_rounds prop=C10,C20 tier=quick bits=2176 stub=1 est=30 desc="W: Speck128_128 encrypt_block and decrypt_block == oracle (32 rounds, round keys in reverse, byte order) on an ARBITRARY round-key state, all blocks; round_function / inverse_round_function uninterpreted, shared with the oracle"
verif_harness! {
    name: speck128_128_w_rounds,
    bytes: 272,
    unwind: 40,
    stubs: [(crate::Speck128_128::round_function, s128_128::stub_rf), (crate::Speck128_128::inverse_round_function, s128_128::stub_irf)],
    prop: |inp| { s128_128::rounds_w(inp) }
}
//@ harness name=speck128_128_w_rt prop=C01,C20 tier=quick bits=2176 stub=1 est=40 desc="W: Speck128_128 decrypt_block(encrypt_block(b)) == b and encrypt_block(decrypt_block(b)) == b on an ARBITRARY round-key state, all blocks; round_function / inverse_round_function uninterpreted mutual inverses (leaf lemma speck_leaf_inverse)"
verif_harness! {
    name: speck128_128_w_rt,
    bytes: 272,
    unwind: 40,
    stubs: [(crate::Speck128_128::round_function, s128_128::stub_rf), (crate::Speck128_128::inverse_round_function, s128_128::stub_irf)],
    prop: |inp| { s128_128::rt_w(inp) }
}

// ------------------------------------------------------------------ Speck128_192

//@ harness name=speck128_192_w_ks prop=C10,C20 tier=quick bits=192 stub=1 est=20 desc="W: Speck128_192::new(key).k == key schedule of the paper (33 round keys, 64-bit words in u64) with round_function uninterpreted (shared with the oracle: (l_(i+m-1), k_(i+1)) = R_i(l_i, k_i)), all keys"
verif_harness! {
    name: speck128_192_w_ks,
    bytes: 24,
    unwind: 40,
    stubs: [(crate::Speck128_192::round_function, s128_192::stub_rf), (crate::Speck128_192::inverse_round_function, s128_192::stub_irf)],
    prop: |inp| { s128_192::ks_w(inp) }
}
//@ harness name=speck128_192_w_rounds prop=C10,C20 tier=quick bits=2240 stub=1 est=35 desc="W: Speck128_192 encrypt_block and decrypt_block == oracle (33 rounds, round keys in reverse, byte order) on an ARBITRARY round-key state, all blocks; round_function / inverse_round_function uninterpreted, shared with the oracle"
verif_harness! {
    name: speck128_192_w_rounds,
    bytes: 280,
    unwind: 40,
    stubs: [(crate::Speck128_192::round_function, s128_192::stub_rf), (crate::Speck128_192::inverse_round_function, s128_192::stub_irf)],
    prop: |inp| { s128_192::rounds_w(inp) }
}
//@ harness name=speck128_192_w_rt prop=C01,C20 tier=quick bits=2240 stub=1 est=45 desc="W: Speck128_192 decrypt_block(encrypt_block(b)) == b and encrypt_block(decrypt_block(b)) == b on an ARBITRARY round-key state, all blocks; round_function / inverse_round_function uninterpreted mutual inverses (leaf lemma speck_leaf_inverse)"
verif_harness! {
    name: speck128_192_w_rt,
    bytes: 280,
    unwind: 40,
    stubs: [(crate::Speck128_192::round_function, s128_192::stub_rf), (crate::Speck128_192::inverse_round_function, s128_192::stub_irf)],
    prop: |inp| { s128_192::rt_w(inp) }
}

// ------------------------------------------------------------------ Speck128_256

//@ harness name=speck128_256_w_ks prop=C10,C20 tier=quick bits=256 stub=1 est=20 desc="W: Speck128_256::new(key).k == key schedule of the paper (34 round keys, 64-bit words in u64) with round_function uninterpreted (shared with the oracle: (l_(i+m-1), k_(i+1)) = R_i(l_i, k_i)), all keys"
verif_harness! {
    name: speck128_256_w_ks,
    bytes: 32,
    unwind: 40,
    stubs: [(crate::Speck128_256::round_function, s128_256::stub_rf), (crate::Speck128_256::inverse_round_function, s128_256::stub_irf)],
    prop: |inp| { s128_256::ks_w(inp) }
}
//@ harness name=speck128_256_w_rounds prop=C10,C20 tier=quick bits=2304 stub=1 est=35 desc="W: Speck128_256 encrypt_block and decrypt_block == oracle (34 rounds, round keys in reverse, byte order) on an ARBITRARY round-key state, all blocks; round_function / inverse_round_function uninterpreted, shared with the oracle"
verif_harness! {
    name: speck128_256_w_rounds,
    bytes: 288,
    unwind: 40,
    stubs: [(crate::Speck128_256::round_function, s128_256::stub_rf), (crate::Speck128_256::inverse_round_function, s128_256::stub_irf)],
    prop: |inp| { s128_256::rounds_w(inp) }
}
//@ harness name=speck128_256_w_rt prop=C01,C20 tier=quick bits=2304 stub=1 est=40 desc="W: Speck128_256 decrypt_block(encrypt_block(b)) == b and encrypt_block(decrypt_block(b)) == b on an ARBITRARY round-key state, all blocks; round_function / inverse_round_function uninterpreted mutual inverses (leaf lemma speck_leaf_inverse)"
verif_harness! {
    name: speck128_256_w_rt,
    bytes: 288,
    unwind: 40,
    stubs: [(crate::Speck128_256::round_function, s128_256::stub_rf), (crate::Speck128_256::inverse_round_function, s128_256::stub_irf)],
    prop: |inp| { s128_256::rt_w(inp) }
}


//! oracle for belt — to be written from the specification

//! BelT (STB 34.101.31-2020): block cipher belt-block (section 6.1) and wide-block transformation belt-wbl
//! (section 6.2), written from the standard's description.
//!
//! Conventions of the standard: an octet string u1 u2 u3 u4 is identified with the number
//! u1 + 2^8 u2 + 2^16 u3 + 2^24 u4 (little-endian); [+] / [-] are addition / subtraction mod 2^32;
//! RotHi^r is the cyclic shift towards the high bits (rotate left of the number);
//! <i>_32 / <i>_128 is the number i as a 32 / 128-bit word.
//!   G_r(u) = RotHi^r( H(u1) || H(u2) || H(u3) || H(u4) )
//! The substitution H is given in the standard as a table (data; taken from belt-block/src/consts.rs, where it is
//! stored pre-rotated as H5[x] = H(x) << 5 -- the first row B1 94 BA C8 0A 08 F5 3B ... is the standard's).

pub const H: [u8; 256] = [
    0xB1, 0x94, 0xBA, 0xC8, 0x0A, 0x08, 0xF5, 0x3B, 0x36, 0x6D, 0x00, 0x8E, 0x58, 0x4A, 0x5D, 0xE4,
    0x85, 0x04, 0xFA, 0x9D, 0x1B, 0xB6, 0xC7, 0xAC, 0x25, 0x2E, 0x72, 0xC2, 0x02, 0xFD, 0xCE, 0x0D,
    0x5B, 0xE3, 0xD6, 0x12, 0x17, 0xB9, 0x61, 0x81, 0xFE, 0x67, 0x86, 0xAD, 0x71, 0x6B, 0x89, 0x0B,
    0x5C, 0xB0, 0xC0, 0xFF, 0x33, 0xC3, 0x56, 0xB8, 0x35, 0xC4, 0x05, 0xAE, 0xD8, 0xE0, 0x7F, 0x99,
    0xE1, 0x2B, 0xDC, 0x1A, 0xE2, 0x82, 0x57, 0xEC, 0x70, 0x3F, 0xCC, 0xF0, 0x95, 0xEE, 0x8D, 0xF1,
    0xC1, 0xAB, 0x76, 0x38, 0x9F, 0xE6, 0x78, 0xCA, 0xF7, 0xC6, 0xF8, 0x60, 0xD5, 0xBB, 0x9C, 0x4F,
    0xF3, 0x3C, 0x65, 0x7B, 0x63, 0x7C, 0x30, 0x6A, 0xDD, 0x4E, 0xA7, 0x79, 0x9E, 0xB2, 0x3D, 0x31,
    0x3E, 0x98, 0xB5, 0x6E, 0x27, 0xD3, 0xBC, 0xCF, 0x59, 0x1E, 0x18, 0x1F, 0x4C, 0x5A, 0xB7, 0x93,
    0xE9, 0xDE, 0xE7, 0x2C, 0x8F, 0x0C, 0x0F, 0xA6, 0x2D, 0xDB, 0x49, 0xF4, 0x6F, 0x73, 0x96, 0x47,
    0x06, 0x07, 0x53, 0x16, 0xED, 0x24, 0x7A, 0x37, 0x39, 0xCB, 0xA3, 0x83, 0x03, 0xA9, 0x8B, 0xF6,
    0x92, 0xBD, 0x9B, 0x1C, 0xE5, 0xD1, 0x41, 0x01, 0x54, 0x45, 0xFB, 0xC9, 0x5E, 0x4D, 0x0E, 0xF2,
    0x68, 0x20, 0x80, 0xAA, 0x22, 0x7D, 0x64, 0x2F, 0x26, 0x87, 0xF9, 0x34, 0x90, 0x40, 0x55, 0x11,
    0xBE, 0x32, 0x97, 0x13, 0x43, 0xFC, 0x9A, 0x48, 0xA0, 0x2A, 0x88, 0x5F, 0x19, 0x4B, 0x09, 0xA1,
    0x7E, 0xCD, 0xA4, 0xD0, 0x15, 0x44, 0xAF, 0x8C, 0xA5, 0x84, 0x50, 0xBF, 0x66, 0xD2, 0xE8, 0x8A,
    0xA2, 0xD7, 0x46, 0x52, 0x42, 0xA8, 0xDF, 0xB3, 0x69, 0x74, 0xC5, 0x51, 0xEB, 0x23, 0x29, 0x21,
    0xD4, 0xEF, 0xD9, 0xB4, 0x3A, 0x62, 0x28, 0x75, 0x91, 0x14, 0x10, 0xEA, 0x77, 0x6C, 0xDA, 0x1D,
];

/// H applied to each of the four octets of the word, then RotHi^r.
pub fn g(u: u32, r: u32) -> u32 {
    let b = u.to_le_bytes();
    let s = [H[b[0] as usize], H[b[1] as usize], H[b[2] as usize], H[b[3] as usize]];
    u32::from_le_bytes(s).rotate_left(r)
}
pub fn g5(u: u32) -> u32 {
    g(u, 5)
}
pub fn g13(u: u32) -> u32 {
    g(u, 13)
}
pub fn g21(u: u32) -> u32 {
    g(u, 21)
}

fn le32(b: &[u8], o: usize) -> u32 {
    (b[o] as u32) | ((b[o + 1] as u32) << 8) | ((b[o + 2] as u32) << 16) | ((b[o + 3] as u32) << 24)
}
fn put_le32(o: &mut [u8; 16], at: usize, v: u32) {
    let b = v.to_le_bytes();
    o[at] = b[0];
    o[at + 1] = b[1];
    o[at + 2] = b[2];
    o[at + 3] = b[3];
}

/// Round keys K[1..=56]: the key theta = theta_1 || ... || theta_8 repeated seven times (K[i] = theta_{((i-1) mod 8)+1}).
/// Index 0 is unused so that the indices are the standard's.
pub fn round_keys(key: &[u8; 32]) -> [u32; 57] {
    let mut k = [0u32; 57];
    let mut i = 1;
    while i <= 56 {
        k[i] = le32(key, 4 * ((i - 1) % 8));
        i += 1;
    }
    k
}

/// belt-block encryption (6.1.3) with G5, G13, G21 as parameters (leaves `g5`, `g13`, `g21` of the crate).
pub fn encrypt_with<A: Fn(u32) -> u32, B: Fn(u32) -> u32, C: Fn(u32) -> u32>(
    key: &[u8; 32],
    x: &[u8; 16],
    g5: A,
    g13: B,
    g21: C,
) -> [u8; 16] {
    let k = round_keys(key);
    let (mut a, mut b, mut c, mut d) = (le32(x, 0), le32(x, 4), le32(x, 8), le32(x, 12));
    let mut i = 1usize;
    while i <= 8 {
        b ^= g5(a.wrapping_add(k[7 * i - 6]));
        c ^= g21(d.wrapping_add(k[7 * i - 5]));
        a = a.wrapping_sub(g13(b.wrapping_add(k[7 * i - 4])));
        let e = g21(b.wrapping_add(c).wrapping_add(k[7 * i - 3])) ^ (i as u32);
        b = b.wrapping_add(e);
        c = c.wrapping_sub(e);
        d = d.wrapping_add(g13(c.wrapping_add(k[7 * i - 2])));
        b ^= g21(a.wrapping_add(k[7 * i - 1]));
        c ^= g5(d.wrapping_add(k[7 * i]));
        // a <-> b, c <-> d, b <-> c
        let (na, nb, nc, nd) = (b, d, a, c);
        a = na;
        b = nb;
        c = nc;
        d = nd;
        i += 1;
    }
    // Y = b || d || a || c
    let mut y = [0u8; 16];
    put_le32(&mut y, 0, b);
    put_le32(&mut y, 4, d);
    put_le32(&mut y, 8, a);
    put_le32(&mut y, 12, c);
    y
}

/// belt-block decryption (6.1.4).
pub fn decrypt_with<A: Fn(u32) -> u32, B: Fn(u32) -> u32, C: Fn(u32) -> u32>(
    key: &[u8; 32],
    y: &[u8; 16],
    g5: A,
    g13: B,
    g21: C,
) -> [u8; 16] {
    let k = round_keys(key);
    let (mut a, mut b, mut c, mut d) = (le32(y, 0), le32(y, 4), le32(y, 8), le32(y, 12));
    let mut i = 8usize;
    while i >= 1 {
        b ^= g5(a.wrapping_add(k[7 * i]));
        c ^= g21(d.wrapping_add(k[7 * i - 1]));
        a = a.wrapping_sub(g13(b.wrapping_add(k[7 * i - 2])));
        let e = g21(b.wrapping_add(c).wrapping_add(k[7 * i - 3])) ^ (i as u32);
        b = b.wrapping_add(e);
        c = c.wrapping_sub(e);
        d = d.wrapping_add(g13(c.wrapping_add(k[7 * i - 4])));
        b ^= g21(a.wrapping_add(k[7 * i - 5]));
        c ^= g5(d.wrapping_add(k[7 * i - 6]));
        // a <-> b, c <-> d, a <-> d
        let (na, nb, nc, nd) = (c, a, d, b);
        a = na;
        b = nb;
        c = nc;
        d = nd;
        i -= 1;
    }
    // X = c || a || d || b
    let mut x = [0u8; 16];
    put_le32(&mut x, 0, c);
    put_le32(&mut x, 4, a);
    put_le32(&mut x, 8, d);
    put_le32(&mut x, 12, b);
    x
}

pub fn encrypt(key: &[u8; 32], x: &[u8; 16]) -> [u8; 16] {
    encrypt_with(key, x, g5, g13, g21)
}
pub fn decrypt(key: &[u8; 32], y: &[u8; 16]) -> [u8; 16] {
    decrypt_with(key, y, g5, g13, g21)
}

// ------------------------------------------------------------------------------------------------------------
// belt-wbl (6.2).  r = r_1 || r_2 || ... || r_n with |r_1| = ... = |r_{n-1}| = 128 bits, 0 < |r_n| <= 128,
// n = ceil(|X| / 128), and r* denotes the LAST 128 bits of r (it straddles r_{n-1} and r_n when |r_n| < 128).
//
// Encryption (6.2.3), for i = 1, 2, ..., 2n:
//   1) s <- r_1 ^ r_2 ^ ... ^ r_{n-1}
//   2) r* <- r* ^ belt-block(s, K) ^ <i>_128
//   3) r <- ShLo^128(r)            (the first 128 bits drop out, 128 zero bits enter at the end)
//   4) r* <- s
// Decryption (6.2.4), for i = 2n, ..., 2, 1:
//   1) s <- r*
//   2) r <- ShHi^128(r)            (the last 128 bits drop out, 128 zero bits enter at the front)
//   3) r* <- r* ^ belt-block(s, K) ^ <i>_128
//   4) r_1 <- s ^ r_2 ^ ... ^ r_{n-1}
// |X| < 256 is outside the domain (the caller gets an error).
//
// The word r is kept as the list of its octets (capacity M, `len` of them in use); the blocks r_1..r_n are read
// out of it explicitly (`block(r, j)` is r_j) and every step builds a *new* word from the old one.

/// r_j (1-based), for a full block (j <= n-1, or j = n when 16 | len).
fn block<const M: usize>(r: &[u8; M], j: usize) -> [u8; 16] {
    let mut b = [0u8; 16];
    let mut t = 0;
    while t < 16 {
        b[t] = r[16 * (j - 1) + t];
        t += 1;
    }
    b
}
/// r* : the last 16 octets of the `len`-octet word.
fn star<const M: usize>(r: &[u8; M], len: usize) -> [u8; 16] {
    let mut b = [0u8; 16];
    let mut t = 0;
    while t < 16 {
        b[t] = r[len - 16 + t];
        t += 1;
    }
    b
}
fn set_star<const M: usize>(r: &mut [u8; M], len: usize, v: &[u8; 16]) {
    let mut t = 0;
    while t < 16 {
        r[len - 16 + t] = v[t];
        t += 1;
    }
}
fn xor16(a: &[u8; 16], b: &[u8; 16]) -> [u8; 16] {
    let mut o = [0u8; 16];
    let mut t = 0;
    while t < 16 {
        o[t] = a[t] ^ b[t];
        t += 1;
    }
    o
}
/// <i>_128 as 16 octets (little-endian number).
fn num128(i: usize) -> [u8; 16] {
    let mut o = [0u8; 16];
    let mut v = i;
    let mut t = 0;
    while t < 8 {
        o[t] = (v & 0xFF) as u8;
        v >>= 8;
        t += 1;
    }
    o
}
/// first ^ r_2 ^ ... ^ r_{n-1}
fn sum_from<const M: usize>(first: [u8; 16], r: &[u8; M], n: usize) -> [u8; 16] {
    let mut s = first;
    let mut j = 2;
    while j <= M / 16 && j <= n - 1 {
        s = xor16(&s, &block(r, j));
        j += 1;
    }
    s
}

/// Number of blocks n = ceil(len / 16).
pub fn nblocks(len: usize) -> usize {
    (len + 15) / 16
}

/// belt-wbl encryption of the first `len` octets of `x` (32 <= len <= M, M = capacity of the model's word) with the
/// block encryption `e` = belt-block(., K) as a parameter (leaf `belt_block_raw(., key)` of the crate, on octet
/// strings).  Octets beyond `len` are returned as 0.  None: outside the domain.
pub fn wblock_enc_with<const M: usize, E: Fn(&[u8; 16]) -> [u8; 16]>(x: &[u8; M], len: usize, e: E) -> Option<[u8; M]> {
    if len < 32 || len > M {
        return None;
    }
    let n = nblocks(len);
    let mut r = [0u8; M];
    let mut t = 0;
    while t < M {
        if t < len {
            r[t] = x[t];
        }
        t += 1;
    }
    let mut i = 1;
    while i <= 2 * ((M + 15) / 16) && i <= 2 * n {
        r = wblock_enc_round(&r, len, i, &e);
        i += 1;
    }
    Some(r)
}

/// One round (counter value i) of belt-wbl encryption on the `len`-octet word r (octets beyond len are 0 on return).
pub fn wblock_enc_round<const M: usize, E: Fn(&[u8; 16]) -> [u8; 16]>(r: &[u8; M], len: usize, i: usize, e: E) -> [u8; M] {
    let n = nblocks(len);
    // 1) s <- r_1 ^ ... ^ r_{n-1}
    let s = sum_from(block(r, 1), r, n);
    // 2) r* <- r* ^ belt-block(s) ^ <i>
    let mut q = *r;
    let v = xor16(&xor16(&star(r, len), &e(&s)), &num128(i));
    set_star(&mut q, len, &v);
    // 3) r <- ShLo^128(r)
    let mut sh = [0u8; M];
    let mut t = 0;
    while t < M {
        if t + 16 < len {
            sh[t] = q[t + 16];
        }
        t += 1;
    }
    // 4) r* <- s
    set_star(&mut sh, len, &s);
    sh
}

/// belt-wbl decryption, same conventions.
pub fn wblock_dec_with<const M: usize, E: Fn(&[u8; 16]) -> [u8; 16]>(y: &[u8; M], len: usize, e: E) -> Option<[u8; M]> {
    if len < 32 || len > M {
        return None;
    }
    let n = nblocks(len);
    let mut r = [0u8; M];
    let mut t = 0;
    while t < M {
        if t < len {
            r[t] = y[t];
        }
        t += 1;
    }
    let mut c = 0;
    while c < 2 * ((M + 15) / 16) && c < 2 * n {
        let i = 2 * n - c;
        r = wblock_dec_round(&r, len, i, &e);
        c += 1;
    }
    Some(r)
}

/// One round (counter value i) of belt-wbl decryption on the `len`-octet word r.
pub fn wblock_dec_round<const M: usize, E: Fn(&[u8; 16]) -> [u8; 16]>(r: &[u8; M], len: usize, i: usize, e: E) -> [u8; M] {
    let n = nblocks(len);
    // 1) s <- r*
    let s = star(r, len);
    // 2) r <- ShHi^128(r)
    let mut sh = [0u8; M];
    let mut t = 0;
    while t < M {
        if t >= 16 && t < len {
            sh[t] = r[t - 16];
        }
        t += 1;
    }
    // 3) r* <- r* ^ belt-block(s) ^ <i>
    let v = xor16(&xor16(&star(&sh, len), &e(&s)), &num128(i));
    set_star(&mut sh, len, &v);
    // 4) r_1 <- s ^ r_2 ^ ... ^ r_{n-1}
    let r1 = sum_from(s, &sh, n);
    t = 0;
    while t < 16 {
        sh[t] = r1[t];
        t += 1;
    }
    sh
}

/// Octet-string view of the crate's word-level block function, for use as `e`.
pub fn block_words_to_octets(w: [u32; 4]) -> [u8; 16] {
    let mut o = [0u8; 16];
    put_le32(&mut o, 0, w[0]);
    put_le32(&mut o, 4, w[1]);
    put_le32(&mut o, 8, w[2]);
    put_le32(&mut o, 12, w[3]);
    o
}
pub fn block_octets_to_words(b: &[u8; 16]) -> [u32; 4] {
    [le32(b, 0), le32(b, 4), le32(b, 8), le32(b, 12)]
}

/// Both directions of belt-wbl use belt-block *encryption* only.
pub fn wblock_enc<const M: usize>(key: &[u8; 32], x: &[u8; M], len: usize) -> Option<[u8; M]> {
    wblock_enc_with(x, len, |b| encrypt(key, b))
}
pub fn wblock_dec<const M: usize>(key: &[u8; 32], y: &[u8; M], len: usize) -> Option<[u8; M]> {
    wblock_dec_with(y, len, |b| encrypt(key, b))
}

/// The same transformation for whole numbers of blocks, on an explicit list r_1..r_N (used to cross-check the
/// octet-list formulation natively; N >= 2).
pub fn wblock_enc_blocks<const N: usize, E: Fn(&[u8; 16]) -> [u8; 16]>(x: &[[u8; 16]; N], e: E) -> [[u8; 16]; N] {
    let mut r = *x;
    let mut i = 1;
    while i <= 2 * N {
        let mut s = r[0];
        let mut j = 1;
        while j < N - 1 {
            s = xor16(&s, &r[j]);
            j += 1;
        }
        let last = xor16(&xor16(&r[N - 1], &e(&s)), &num128(i));
        let mut nr = [[0u8; 16]; N];
        j = 0;
        while j + 2 < N {
            nr[j] = r[j + 1];
            j += 1;
        }
        nr[N - 2] = last;
        nr[N - 1] = s;
        r = nr;
        i += 1;
    }
    r
}
pub fn wblock_dec_blocks<const N: usize, E: Fn(&[u8; 16]) -> [u8; 16]>(y: &[[u8; 16]; N], e: E) -> [[u8; 16]; N] {
    let mut r = *y;
    let mut i = 2 * N;
    while i >= 1 {
        let s = r[N - 1];
        let mut nr = [[0u8; 16]; N];
        let mut j = 1;
        while j < N {
            nr[j] = r[j - 1];
            j += 1;
        }
        nr[N - 1] = xor16(&xor16(&nr[N - 1], &e(&s)), &num128(i));
        let mut r1 = s;
        j = 1;
        while j < N - 1 {
            r1 = xor16(&r1, &nr[j]);
            j += 1;
        }
        nr[0] = r1;
        r = nr;
        i -= 1;
    }
    r
}

/// belt-wbl for whole numbers of blocks on the list r_1..r_N of 128-bit words read as numbers (octets little-endian,
/// as the standard identifies words with numbers; <i>_128 is then just i).  N >= 2.  `e` = belt-block(., K) on words.
pub fn wblock_enc_words<const N: usize, E: Fn(u128) -> u128>(x: &[u128; N], e: E) -> [u128; N] {
    let mut r = *x;
    let mut i = 1;
    while i <= 2 * N {
        r = wblock_enc_round_words(&r, i, &e);
        i += 1;
    }
    r
}
/// One encryption round (counter i) on whole blocks as numbers.
pub fn wblock_enc_round_words<const N: usize, E: Fn(u128) -> u128>(r: &[u128; N], i: usize, e: E) -> [u128; N] {
    // s <- r_1 ^ ... ^ r_{n-1}
    let mut s = r[0];
    let mut j = 1;
    while j < N - 1 {
        s ^= r[j];
        j += 1;
    }
    // r* <- r* ^ belt-block(s) ^ <i>;  r <- ShLo^128(r);  r* <- s
    let last = r[N - 1] ^ e(s) ^ (i as u128);
    let mut nr = [0u128; N];
    j = 0;
    while j + 2 < N {
        nr[j] = r[j + 1];
        j += 1;
    }
    nr[N - 2] = last;
    nr[N - 1] = s;
    nr
}
pub fn wblock_dec_words<const N: usize, E: Fn(u128) -> u128>(y: &[u128; N], e: E) -> [u128; N] {
    let mut r = *y;
    let mut i = 2 * N;
    while i >= 1 {
        r = wblock_dec_round_words(&r, i, &e);
        i -= 1;
    }
    r
}
/// One decryption round (counter i) on whole blocks as numbers.
pub fn wblock_dec_round_words<const N: usize, E: Fn(u128) -> u128>(r: &[u128; N], i: usize, e: E) -> [u128; N] {
    // s <- r*;  r <- ShHi^128(r);  r* <- r* ^ belt-block(s) ^ <i>;  r_1 <- s ^ r_2 ^ ... ^ r_{n-1}
    let s = r[N - 1];
    let mut nr = [0u128; N];
    let mut j = 1;
    while j < N {
        nr[j] = r[j - 1];
        j += 1;
    }
    nr[N - 1] ^= e(s) ^ (i as u128);
    let mut r1 = s;
    j = 1;
    while j < N - 1 {
        r1 ^= nr[j];
        j += 1;
    }
    nr[0] = r1;
    nr
}

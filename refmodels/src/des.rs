//! FIPS 46-3 DEA and SP 800-67 TDEA, written from the published bit tables (bit 1 = most significant).
//! Deliberately naive: every permutation is a table walk over single bits.

pub const IP: [u8; 64] = [
    58, 50, 42, 34, 26, 18, 10, 2, 60, 52, 44, 36, 28, 20, 12, 4, 62, 54, 46, 38, 30, 22, 14, 6, 64, 56, 48, 40, 32,
    24, 16, 8, 57, 49, 41, 33, 25, 17, 9, 1, 59, 51, 43, 35, 27, 19, 11, 3, 61, 53, 45, 37, 29, 21, 13, 5, 63, 55, 47,
    39, 31, 23, 15, 7,
];
pub const FP: [u8; 64] = [
    40, 8, 48, 16, 56, 24, 64, 32, 39, 7, 47, 15, 55, 23, 63, 31, 38, 6, 46, 14, 54, 22, 62, 30, 37, 5, 45, 13, 53, 21,
    61, 29, 36, 4, 44, 12, 52, 20, 60, 28, 35, 3, 43, 11, 51, 19, 59, 27, 34, 2, 42, 10, 50, 18, 58, 26, 33, 1, 41, 9,
    49, 17, 57, 25,
];
pub const E: [u8; 48] = [
    32, 1, 2, 3, 4, 5, 4, 5, 6, 7, 8, 9, 8, 9, 10, 11, 12, 13, 12, 13, 14, 15, 16, 17, 16, 17, 18, 19, 20, 21, 20, 21,
    22, 23, 24, 25, 24, 25, 26, 27, 28, 29, 28, 29, 30, 31, 32, 1,
];
pub const P: [u8; 32] = [
    16, 7, 20, 21, 29, 12, 28, 17, 1, 15, 23, 26, 5, 18, 31, 10, 2, 8, 24, 14, 32, 27, 3, 9, 19, 13, 30, 6, 22, 11, 4,
    25,
];
pub const PC1: [u8; 56] = [
    57, 49, 41, 33, 25, 17, 9, 1, 58, 50, 42, 34, 26, 18, 10, 2, 59, 51, 43, 35, 27, 19, 11, 3, 60, 52, 44, 36, 63, 55,
    47, 39, 31, 23, 15, 7, 62, 54, 46, 38, 30, 22, 14, 6, 61, 53, 45, 37, 29, 21, 13, 5, 28, 20, 12, 4,
];
pub const PC2: [u8; 48] = [
    14, 17, 11, 24, 1, 5, 3, 28, 15, 6, 21, 10, 23, 19, 12, 4, 26, 8, 16, 7, 27, 20, 13, 2, 41, 52, 31, 37, 47, 55, 30,
    40, 51, 45, 33, 48, 44, 49, 39, 56, 34, 53, 46, 42, 50, 36, 29, 32,
];
pub const SHIFTS: [u8; 16] = [1, 1, 2, 2, 2, 2, 2, 2, 1, 2, 2, 2, 2, 2, 2, 1];

/// S-boxes in the standard's layout: S[i][row][col], row = b1b6, col = b2b3b4b5.
pub const S: [[[u8; 16]; 4]; 8] = [
    [
        [14, 4, 13, 1, 2, 15, 11, 8, 3, 10, 6, 12, 5, 9, 0, 7],
        [0, 15, 7, 4, 14, 2, 13, 1, 10, 6, 12, 11, 9, 5, 3, 8],
        [4, 1, 14, 8, 13, 6, 2, 11, 15, 12, 9, 7, 3, 10, 5, 0],
        [15, 12, 8, 2, 4, 9, 1, 7, 5, 11, 3, 14, 10, 0, 6, 13],
    ],
    [
        [15, 1, 8, 14, 6, 11, 3, 4, 9, 7, 2, 13, 12, 0, 5, 10],
        [3, 13, 4, 7, 15, 2, 8, 14, 12, 0, 1, 10, 6, 9, 11, 5],
        [0, 14, 7, 11, 10, 4, 13, 1, 5, 8, 12, 6, 9, 3, 2, 15],
        [13, 8, 10, 1, 3, 15, 4, 2, 11, 6, 7, 12, 0, 5, 14, 9],
    ],
    [
        [10, 0, 9, 14, 6, 3, 15, 5, 1, 13, 12, 7, 11, 4, 2, 8],
        [13, 7, 0, 9, 3, 4, 6, 10, 2, 8, 5, 14, 12, 11, 15, 1],
        [13, 6, 4, 9, 8, 15, 3, 0, 11, 1, 2, 12, 5, 10, 14, 7],
        [1, 10, 13, 0, 6, 9, 8, 7, 4, 15, 14, 3, 11, 5, 2, 12],
    ],
    [
        [7, 13, 14, 3, 0, 6, 9, 10, 1, 2, 8, 5, 11, 12, 4, 15],
        [13, 8, 11, 5, 6, 15, 0, 3, 4, 7, 2, 12, 1, 10, 14, 9],
        [10, 6, 9, 0, 12, 11, 7, 13, 15, 1, 3, 14, 5, 2, 8, 4],
        [3, 15, 0, 6, 10, 1, 13, 8, 9, 4, 5, 11, 12, 7, 2, 14],
    ],
    [
        [2, 12, 4, 1, 7, 10, 11, 6, 8, 5, 3, 15, 13, 0, 14, 9],
        [14, 11, 2, 12, 4, 7, 13, 1, 5, 0, 15, 10, 3, 9, 8, 6],
        [4, 2, 1, 11, 10, 13, 7, 8, 15, 9, 12, 5, 6, 3, 0, 14],
        [11, 8, 12, 7, 1, 14, 2, 13, 6, 15, 0, 9, 10, 4, 5, 3],
    ],
    [
        [12, 1, 10, 15, 9, 2, 6, 8, 0, 13, 3, 4, 14, 7, 5, 11],
        [10, 15, 4, 2, 7, 12, 9, 5, 6, 1, 13, 14, 0, 11, 3, 8],
        [9, 14, 15, 5, 2, 8, 12, 3, 7, 0, 4, 10, 1, 13, 11, 6],
        [4, 3, 2, 12, 9, 5, 15, 10, 11, 14, 1, 7, 6, 0, 8, 13],
    ],
    [
        [4, 11, 2, 14, 15, 0, 8, 13, 3, 12, 9, 7, 5, 10, 6, 1],
        [13, 0, 11, 7, 4, 9, 1, 10, 14, 3, 5, 12, 2, 15, 8, 6],
        [1, 4, 11, 13, 12, 3, 7, 14, 10, 15, 6, 8, 0, 5, 9, 2],
        [6, 11, 13, 8, 1, 4, 10, 7, 9, 5, 0, 15, 14, 2, 3, 12],
    ],
    [
        [13, 2, 8, 4, 6, 15, 11, 1, 10, 9, 3, 14, 5, 0, 12, 7],
        [1, 15, 13, 8, 10, 3, 7, 4, 12, 5, 6, 11, 0, 14, 9, 2],
        [7, 11, 4, 1, 9, 12, 14, 2, 0, 6, 10, 13, 15, 3, 5, 8],
        [2, 1, 14, 7, 4, 10, 8, 13, 15, 12, 9, 0, 3, 5, 6, 11],
    ],
];

/// Generic bit permutation: output bit j (1-based from MSB of an `out_w`-bit word) is input bit tab[j]
/// (1-based from the MSB of an `in_w`-bit word). Words are right-aligned in the u64.
pub fn permute(x: u64, in_w: u32, tab: &[u8]) -> u64 {
    let out_w = tab.len() as u32;
    let mut o = 0u64;
    let mut j = 0;
    while j < tab.len() {
        let b = (x >> (in_w - tab[j] as u32)) & 1;
        o |= b << (out_w - 1 - j as u32);
        j += 1;
    }
    o
}

/// The cipher function f(R, K): R is 32 bits, K is 48 bits, both right-aligned.
pub fn f(r: u32, k48: u64) -> u32 {
    let x = permute(r as u64, 32, &E) ^ k48;
    let mut s_out = 0u32;
    let mut i = 0;
    while i < 8 {
        let six = ((x >> (42 - 6 * i)) & 0x3f) as usize;
        let row = ((six >> 5) << 1) | (six & 1);
        let col = (six >> 1) & 0xf;
        s_out |= (S[i][row][col] as u32) << (28 - 4 * i);
        i += 1;
    }
    permute(s_out as u64, 32, &P) as u32
}

/// 16 subkeys of 48 bits (right-aligned); parity bits are ignored by PC1.
pub fn key_schedule(key: u64) -> [u64; 16] {
    let cd = permute(key, 64, &PC1);
    let mut c = (cd >> 28) & 0x0fff_ffff;
    let mut d = cd & 0x0fff_ffff;
    let mut ks = [0u64; 16];
    let mut i = 0;
    while i < 16 {
        let s = SHIFTS[i] as u32;
        c = ((c << s) | (c >> (28 - s))) & 0x0fff_ffff;
        d = ((d << s) | (d >> (28 - s))) & 0x0fff_ffff;
        ks[i] = permute((c << 28) | d, 56, &PC2);
        i += 1;
    }
    ks
}

/// DEA with an explicit cipher function (so that wiring queries can plug in an uninterpreted one).
pub fn crypt_with<F: Fn(u32, u64) -> u32>(block: u64, ks: &[u64; 16], decrypt: bool, ff: F) -> u64 {
    let x = permute(block, 64, &IP);
    let mut l = (x >> 32) as u32;
    let mut r = x as u32;
    let mut i = 0;
    while i < 16 {
        let k = if decrypt { ks[15 - i] } else { ks[i] };
        let t = l ^ ff(r, k);
        l = r;
        r = t;
        i += 1;
    }
    permute(((r as u64) << 32) | l as u64, 64, &FP)
}

pub fn encrypt(key: u64, block: u64) -> u64 {
    crypt_with(block, &key_schedule(key), false, f)
}
pub fn decrypt(key: u64, block: u64) -> u64 {
    crypt_with(block, &key_schedule(key), true, f)
}

/// SP 800-67 TDEA, EDE: C = E_k3(D_k2(E_k1(P))).
pub fn tdes_ede3_encrypt(k: [u64; 3], b: u64) -> u64 {
    encrypt(k[2], decrypt(k[1], encrypt(k[0], b)))
}
pub fn tdes_ede3_decrypt(k: [u64; 3], b: u64) -> u64 {
    decrypt(k[0], encrypt(k[1], decrypt(k[2], b)))
}
/// EEE: C = E_k3(E_k2(E_k1(P))).
pub fn tdes_eee3_encrypt(k: [u64; 3], b: u64) -> u64 {
    encrypt(k[2], encrypt(k[1], encrypt(k[0], b)))
}
pub fn tdes_eee3_decrypt(k: [u64; 3], b: u64) -> u64 {
    decrypt(k[0], decrypt(k[1], decrypt(k[2], b)))
}

/// Number of distinct subkeys of a key (1 weak, 2 semi-weak, 4 possibly weak).
pub fn distinct_subkeys(key: u64) -> usize {
    let ks = key_schedule(key);
    let mut n = 0;
    let mut i = 0;
    while i < 16 {
        let mut seen = false;
        let mut j = 0;
        while j < i {
            if ks[j] == ks[i] {
                seen = true;
            }
            j += 1;
        }
        if !seen {
            n += 1;
        }
        i += 1;
    }
    n
}

/// The 64 keys NIST lists (4 weak, 12 semi-weak, 48 possibly weak), big-endian u64 with odd parity.
/// Data of the trusted base: validated structurally by `validate_weak_list` (odd parity, pairwise distinct modulo
/// parity, 4/12/48 keys with exactly 1/2/4 distinct subkeys under `key_schedule`).
pub const NIST_WEAK: [u64; 64] = [
    0x0101010101010101,
    0xFEFEFEFEFEFEFEFE,
    0xE0E0E0E0F1F1F1F1,
    0x1F1F1F1F0E0E0E0E,
    0x011F011F010E010E,
    0x1F011F010E010E01,
    0x01E001E001F101F1,
    0xE001E001F101F101,
    0x01FE01FE01FE01FE,
    0xFE01FE01FE01FE01,
    0x1FE01FE00EF10EF1,
    0xE01FE01FF10EF10E,
    0x1FFE1FFE0EFE0EFE,
    0xFE1FFE1FFE0EFE0E,
    0xE0FEE0FEF1FEF1FE,
    0xFEE0FEE0FEF1FEF1,
    0x01011F1F01010E0E,
    0x1F1F01010E0E0101,
    0xE0E01F1FF1F10E0E,
    0x0101E0E00101F1F1,
    0x1F1FE0E00E0EF1F1,
    0xE0E0FEFEF1F1FEFE,
    0x0101FEFE0101FEFE,
    0x1F1FFEFE0E0EFEFE,
    0xE0FE011FF1FE010E,
    0x011F1F01010E0E01,
    0x1FE001FE0EF101FE,
    0xE0FE1F01F1FE0E01,
    0x011FE0FE010EF1FE,
    0x1FE0E01F0EF1F10E,
    0xE0FEFEE0F1FEFEF1,
    0x011FFEE0010EFEF1,
    0x1FE0FE010EF1FE01,
    0xFE0101FEFE0101FE,
    0x01E01FFE01F10EFE,
    0x1FFE01E00EFE01F1,
    0xFE011FE0FE010EF1,
    0xFE01E01FFE01F10E,
    0x1FFEE0010EFEF101,
    0xFE1F01E0FE0E01F1,
    0x01E0E00101F1F101,
    0x1FFEFE1F0EFEFE0E,
    0xFE1FE001FE0EF101,
    0x01E0FE1F01F1FE0E,
    0xE00101E0F10101F1,
    0xFE1F1FFEFE0E0EFE,
    0x01FE1FE001FE0EF1,
    0xE0011FFEF1010EFE,
    0xFEE0011FFEF1010E,
    0x01FEE01F01FEF10E,
    0xE001FE1FF101FE0E,
    0xFEE01F01FEF10E01,
    0x01FEFE0101FEFE01,
    0xE01F01FEF10E01FE,
    0xFEE0E0FEFEF1F1FE,
    0x1F01011F0E01010E,
    0xE01F1FE0F10E0EF1,
    0xFEFE0101FEFE0101,
    0x1F01E0FE0E01F1FE,
    0xE01FFE01F10EFE01,
    0xFEFE1F1FFEFE0E0E,
    0x1F01FEE00E01FEF1,
    0xE0E00101F1F10101,
    0xFEFEE0E0FEFEF1F1,
];

pub const PARITY_MASK: u64 = 0xFEFE_FEFE_FEFE_FEFE;

/// Is `key` (big-endian u64, any parity) one of the NIST-listed keys?
pub fn is_nist_weak(key: u64) -> bool {
    let mut hit = false;
    let mut i = 0;
    while i < 64 {
        if (NIST_WEAK[i] & PARITY_MASK) == (key & PARITY_MASK) {
            hit = true;
        }
        i += 1;
    }
    hit
}

/// Structural validation of the list (run natively at set-up).
pub fn validate_weak_list() -> Result<(), &'static str> {
    let mut counts = [0usize; 17];
    for i in 0..64 {
        let k = NIST_WEAK[i];
        for b in k.to_be_bytes() {
            if b.count_ones() % 2 != 1 {
                return Err("weak-key list entry without odd parity");
            }
        }
        for j in 0..i {
            if NIST_WEAK[j] & PARITY_MASK == k & PARITY_MASK {
                return Err("weak-key list has duplicates");
            }
        }
        counts[distinct_subkeys(k)] += 1;
    }
    if counts[1] != 4 || counts[2] != 12 || counts[4] != 48 {
        return Err("weak-key list does not split 4/12/48 by number of distinct subkeys");
    }
    Ok(())
}

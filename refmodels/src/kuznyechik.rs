//! oracle for kuznyechik — to be written from the specification

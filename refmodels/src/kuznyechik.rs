//! GOST R 34.12-2015 "Kuznyechik" (128-bit block, 256-bit key), written from the standard's description.
//!
//! A 128-bit word a = a15 || ... || a0 is kept as a byte array with a15 FIRST (index 0) and a0 last (index 15),
//! which is the order in which the standard prints blocks and keys (and the byte order of the crate's API).
//!   S  : every byte through pi
//!   l(a15, ..., a0) = 148*a15 + 32*a14 + 133*a13 + 16*a12 + 194*a11 + 192*a10 + 1*a9 + 251*a8 + 1*a7 + 192*a6
//!                     + 194*a5 + 16*a4 + 133*a3 + 32*a2 + 148*a1 + 1*a0      in GF(2)[x] / (x^8 + x^7 + x^6 + x + 1)
//!   R(a15 || ... || a0) = l(a15, ..., a0) || a15 || ... || a1,   L = R^16
//!   X[k](a) = k ^ a
//!   C_i = L(Vec_128(i)), i = 1..32
//!   F[k](a1, a0) = (L S X[k](a1) ^ a0, a1)
//!   K1 || K2 = key;  (K_{2i+1}, K_{2i+2}) = F[C_{8(i-1)+8}] ... F[C_{8(i-1)+1}] (K_{2i-1}, K_{2i}),  i = 1..4
//!   E(a) = X[K10] L S X[K9] ... L S X[K1] (a)
//!   D(a) = X[K1] S^-1 L^-1 X[K2] ... S^-1 L^-1 X[K10] (a)
//! pi is given in the standard as a table only (data; copied from kuznyechik/src/consts.rs `P`); pi^-1 is derived
//! from it, the field arithmetic and all constants C_i are computed.

pub type Block = [u8; 16];

pub const PI: [u8; 256] = [
    0xFC, 0xEE, 0xDD, 0x11, 0xCF, 0x6E, 0x31, 0x16, 0xFB, 0xC4, 0xFA, 0xDA, 0x23, 0xC5, 0x04, 0x4D,
    0xE9, 0x77, 0xF0, 0xDB, 0x93, 0x2E, 0x99, 0xBA, 0x17, 0x36, 0xF1, 0xBB, 0x14, 0xCD, 0x5F, 0xC1,
    0xF9, 0x18, 0x65, 0x5A, 0xE2, 0x5C, 0xEF, 0x21, 0x81, 0x1C, 0x3C, 0x42, 0x8B, 0x01, 0x8E, 0x4F,
    0x05, 0x84, 0x02, 0xAE, 0xE3, 0x6A, 0x8F, 0xA0, 0x06, 0x0B, 0xED, 0x98, 0x7F, 0xD4, 0xD3, 0x1F,
    0xEB, 0x34, 0x2C, 0x51, 0xEA, 0xC8, 0x48, 0xAB, 0xF2, 0x2A, 0x68, 0xA2, 0xFD, 0x3A, 0xCE, 0xCC,
    0xB5, 0x70, 0x0E, 0x56, 0x08, 0x0C, 0x76, 0x12, 0xBF, 0x72, 0x13, 0x47, 0x9C, 0xB7, 0x5D, 0x87,
    0x15, 0xA1, 0x96, 0x29, 0x10, 0x7B, 0x9A, 0xC7, 0xF3, 0x91, 0x78, 0x6F, 0x9D, 0x9E, 0xB2, 0xB1,
    0x32, 0x75, 0x19, 0x3D, 0xFF, 0x35, 0x8A, 0x7E, 0x6D, 0x54, 0xC6, 0x80, 0xC3, 0xBD, 0x0D, 0x57,
    0xDF, 0xF5, 0x24, 0xA9, 0x3E, 0xA8, 0x43, 0xC9, 0xD7, 0x79, 0xD6, 0xF6, 0x7C, 0x22, 0xB9, 0x03,
    0xE0, 0x0F, 0xEC, 0xDE, 0x7A, 0x94, 0xB0, 0xBC, 0xDC, 0xE8, 0x28, 0x50, 0x4E, 0x33, 0x0A, 0x4A,
    0xA7, 0x97, 0x60, 0x73, 0x1E, 0x00, 0x62, 0x44, 0x1A, 0xB8, 0x38, 0x82, 0x64, 0x9F, 0x26, 0x41,
    0xAD, 0x45, 0x46, 0x92, 0x27, 0x5E, 0x55, 0x2F, 0x8C, 0xA3, 0xA5, 0x7D, 0x69, 0xD5, 0x95, 0x3B,
    0x07, 0x58, 0xB3, 0x40, 0x86, 0xAC, 0x1D, 0xF7, 0x30, 0x37, 0x6B, 0xE4, 0x88, 0xD9, 0xE7, 0x89,
    0xE1, 0x1B, 0x83, 0x49, 0x4C, 0x3F, 0xF8, 0xFE, 0x8D, 0x53, 0xAA, 0x90, 0xCA, 0xD8, 0x85, 0x61,
    0x20, 0x71, 0x67, 0xA4, 0x2D, 0x2B, 0x09, 0x5B, 0xCB, 0x9B, 0x25, 0xD0, 0xBE, 0xE5, 0x6C, 0x52,
    0x59, 0xA6, 0x74, 0xD2, 0xE6, 0xF4, 0xB4, 0xC0, 0xD1, 0x66, 0xAF, 0xC2, 0x39, 0x4B, 0x63, 0xB6,
];

/// pi^-1, derived from pi (pi is a permutation).
pub const PI_INV: [u8; 256] = {
    let mut t = [0u8; 256];
    let mut i = 0;
    while i < 256 {
        t[PI[i] as usize] = i as u8;
        i += 1;
    }
    t
};

/// Coefficients of l in the order a15, a14, ..., a0 (= byte index 0, 1, ..., 15).
pub const LC: [u8; 16] = [148, 32, 133, 16, 194, 192, 1, 251, 1, 192, 194, 16, 133, 32, 148, 1];

/// Multiplication in GF(2^8) = GF(2)[x] / (x^8 + x^7 + x^6 + x + 1)   (0x1C3), schoolbook: carry-less product
/// a(x) b(x), then reduction of the degree 14..8 terms (x^d = x^(d-8) (x^7 + x^6 + x + 1) mod p).
/// Written without data-dependent branches on `b` and on the product (masks instead), so that with a constant
/// coefficient `a` the symbolic execution sees a plain XOR network.
pub const fn gf_mul(a: u8, b: u8) -> u8 {
    let mut p: u16 = 0;
    let mut i = 0;
    while i < 8 {
        if (a >> i) & 1 == 1 {
            p ^= (b as u16) << i;
        }
        i += 1;
    }
    let mut d = 14;
    while d >= 8 {
        let m = 0u16.wrapping_sub((p >> d) & 1); // all ones iff the degree-d term is present
        p ^= (0x1C3u16 << (d - 8)) & m;
        d -= 1;
    }
    p as u8
}

pub fn s(a: &Block) -> Block {
    let mut o = [0u8; 16];
    let mut i = 0;
    while i < 16 {
        o[i] = PI[a[i] as usize];
        i += 1;
    }
    o
}
pub fn s_inv(a: &Block) -> Block {
    let mut o = [0u8; 16];
    let mut i = 0;
    while i < 16 {
        o[i] = PI_INV[a[i] as usize];
        i += 1;
    }
    o
}

/// l as the standard writes it: sum_j c_j * a_j in the field.
pub const fn l_func_plain(a: &Block) -> u8 {
    let mut x = 0u8;
    let mut i = 0;
    while i < 16 {
        x ^= gf_mul(LC[i], a[i]);
        i += 1;
    }
    x
}

/// c_j * x^i mod p(x) for the sixteen coefficients of l and i = 0..7, computed from the field definition.
pub const LC_XPOW: [[u8; 8]; 16] = {
    let mut t = [[0u8; 8]; 16];
    let mut j = 0;
    while j < 16 {
        let mut i = 0;
        while i < 8 {
            t[j][i] = gf_mul(LC[j], 1u8 << i);
            i += 1;
        }
        j += 1;
    }
    t
};

/// all ones iff bit i of v is set
const fn bit_mask(v: u8, i: u32) -> u8 {
    0u8.wrapping_sub((v >> i) & 1)
}
/// c_j * v for the j-th coefficient of l, expanded by distributivity over the bits of v = sum_i v_i x^i:
/// c_j * v = sum_i v_i (c_j * x^i).  Branch-free and loop-free (cheap for the symbolic execution; equal to
/// gf_mul(LC[j], v) -- checked exhaustively by the native validation).
pub const fn mul_lc(j: usize, v: u8) -> u8 {
    let t = &LC_XPOW[j];
    (t[0] & bit_mask(v, 0))
        ^ (t[1] & bit_mask(v, 1))
        ^ (t[2] & bit_mask(v, 2))
        ^ (t[3] & bit_mask(v, 3))
        ^ (t[4] & bit_mask(v, 4))
        ^ (t[5] & bit_mask(v, 5))
        ^ (t[6] & bit_mask(v, 6))
        ^ (t[7] & bit_mask(v, 7))
}
/// l(a15, ..., a0) = sum_j c_j * a_j, accumulated in the order a15, a14, ..., a0.
pub const fn l_func(a: &Block) -> u8 {
    let mut x = 0u8;
    let mut j = 0;
    while j < 16 {
        x ^= mul_lc(j, a[j]);
        j += 1;
    }
    x
}
/// R(a15 || ... || a0) = l(a15..a0) || a15 || ... || a1
pub const fn r(a: &Block) -> Block {
    let mut o = [0u8; 16];
    o[0] = l_func(a);
    let mut i = 1;
    while i < 16 {
        o[i] = a[i - 1];
        i += 1;
    }
    o
}
/// R^-1(a15 || ... || a0) = a14 || ... || a0 || l(a14, ..., a0, a15)
pub const fn r_inv(a: &Block) -> Block {
    let mut t = [0u8; 16];
    let mut i = 0;
    while i < 15 {
        t[i] = a[i + 1];
        i += 1;
    }
    t[15] = a[0];
    let x = l_func(&t);
    t[15] = x;
    t
}
pub const fn l(a: &Block) -> Block {
    let mut v = *a;
    let mut i = 0;
    while i < 16 {
        v = r(&v);
        i += 1;
    }
    v
}
pub const fn l_inv(a: &Block) -> Block {
    let mut v = *a;
    let mut i = 0;
    while i < 16 {
        v = r_inv(&v);
        i += 1;
    }
    v
}
pub fn x(k: &Block, a: &Block) -> Block {
    let mut o = [0u8; 16];
    let mut i = 0;
    while i < 16 {
        o[i] = k[i] ^ a[i];
        i += 1;
    }
    o
}
/// L S
pub fn ls(a: &Block) -> Block {
    l(&s(a))
}
/// S^-1 L^-1
pub fn s_inv_l_inv(a: &Block) -> Block {
    s_inv(&l_inv(a))
}

/// C_i = L(Vec_128(i)), i = 1..=32
pub const fn c(i: usize) -> Block {
    let mut v = [0u8; 16];
    v[15] = i as u8;
    l(&v)
}

/// Round keys K1..K10 (index 0..9).  `ls` is the composite L S (leaf: `transform(., ENC_TABLE)` / `lsx` without the
/// key addition in the crate's back ends).
pub fn key_schedule_with<LS: Fn(&Block) -> Block>(key: &[u8; 32], ls: LS) -> [Block; 10] {
    let mut k = [[0u8; 16]; 10];
    let mut a1 = [0u8; 16];
    let mut a0 = [0u8; 16];
    let mut i = 0;
    while i < 16 {
        a1[i] = key[i];
        a0[i] = key[16 + i];
        i += 1;
    }
    k[0] = a1;
    k[1] = a0;
    let mut g = 1;
    while g <= 4 {
        let mut j = 1;
        while j <= 8 {
            // F[C](a1, a0) = (LSX[C](a1) ^ a0, a1)
            let n = x(&ls(&x(&c(8 * (g - 1) + j), &a1)), &a0);
            a0 = a1;
            a1 = n;
            j += 1;
        }
        k[2 * g] = a1;
        k[2 * g + 1] = a0;
        g += 1;
    }
    k
}

/// E(a) = X[K10] LSX[K9] ... LSX[K1](a)
pub fn encrypt_with<LS: Fn(&Block) -> Block>(rk: &[Block; 10], a: &Block, ls: LS) -> Block {
    let mut v = *a;
    let mut i = 0;
    while i < 9 {
        v = ls(&x(&rk[i], &v));
        i += 1;
    }
    x(&rk[9], &v)
}

/// D(a) = X[K1] S^-1 L^-1 X[K2] ... S^-1 L^-1 X[K10](a), with S^-1 and L^-1 as separate parameters.
pub fn decrypt_with<SI: Fn(&Block) -> Block, LI: Fn(&Block) -> Block>(rk: &[Block; 10], a: &Block, si: SI, li: LI) -> Block {
    let mut v = *a;
    let mut i = 9;
    while i >= 1 {
        v = si(&li(&x(&rk[i], &v)));
        i -= 1;
    }
    x(&rk[0], &v)
}

pub fn key_schedule(key: &[u8; 32]) -> [Block; 10] {
    key_schedule_with(key, ls)
}
pub fn encrypt(key: &[u8; 32], a: &Block) -> Block {
    encrypt_with(&key_schedule(key), a, ls)
}
pub fn decrypt(key: &[u8; 32], a: &Block) -> Block {
    decrypt_with(&key_schedule(key), a, s_inv, l_inv)
}

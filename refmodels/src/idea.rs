//! oracle for idea — to be written from the specification

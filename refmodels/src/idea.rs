//! IDEA (Lai, Massey: "A Proposal for a New Block Encryption Standard", 1990/91; Lai's thesis), written from the
//! algorithm description: three group operations on 16-bit sub-blocks (XOR, addition mod 2^16, multiplication mod
//! 2^16+1 with the all-zero sub-block standing for 2^16), 8 rounds + output transformation, 52 sub-keys taken from
//! the 128-bit key under repeated 25-bit left rotations, decryption sub-keys from inverses.
//!
//! Leaves exposed as generic parameters: `mul` (crypt_with), `mul_inv` / `add_inv` (invert_with).

/// Multiplication modulo 2^16 + 1, 0 represents 2^16.
pub fn mul(a: u16, b: u16) -> u16 {
    let x: u64 = if a == 0 { 65536 } else { a as u64 };
    let y: u64 = if b == 0 { 65536 } else { b as u64 };
    let p = (x * y) % 65537;
    // p is never 0 (65537 is prime and x, y are non-zero residues); 65536 is represented by 0
    (p & 0xffff) as u16
}
/// Addition modulo 2^16.
pub fn add(a: u16, b: u16) -> u16 {
    ((a as u32 + b as u32) % 65536) as u16
}
/// Additive inverse modulo 2^16.
pub fn add_inv(a: u16) -> u16 {
    ((65536 - a as u32) % 65536) as u16
}
/// Multiplicative inverse modulo the prime 2^16 + 1 by Fermat: a^(p-2).
pub fn mul_inv(a: u16) -> u16 {
    // exponent 65535 = 2^16 - 1: sixteen one-bits
    let mut r: u16 = 1;
    let mut i = 0;
    while i < 16 {
        r = mul(r, r);
        r = mul(r, a);
        i += 1;
    }
    r
}

/// Encryption sub-keys Z1..Z52: the key is split into eight 16-bit sub-blocks (big-endian), these are the first
/// eight sub-keys; the key is then rotated left by 25 bits and split again, and so on.
pub fn expand_key(key: &[u8; 16]) -> [u16; 52] {
    let mut k: u128 = 0;
    let mut i = 0;
    while i < 16 {
        k = (k << 8) | key[i] as u128;
        i += 1;
    }
    let mut z = [0u16; 52];
    i = 0;
    while i < 52 {
        let j = i % 8;
        if i > 0 && j == 0 {
            k = k.rotate_left(25);
        }
        z[i] = (k >> (112 - 16 * j)) as u16;
        i += 1;
    }
    z
}

/// Decryption sub-keys.  With Z(r)1..6 the sub-keys of encryption round r (r = 1..8) and Z(9)1..4 those of the
/// output transformation, decryption round r uses
///   (Z(10-r)1^-1, -Z(10-r)3, -Z(10-r)2, Z(10-r)4^-1, Z(9-r)5, Z(9-r)6)   for r = 2..8
///   (Z(10-r)1^-1, -Z(10-r)2, -Z(10-r)3, Z(10-r)4^-1, Z(9-r)5, Z(9-r)6)   for r = 1
/// and the output transformation (Z(1)1^-1, -Z(1)2, -Z(1)3, Z(1)4^-1).
pub fn invert_with<MI: Fn(u16) -> u16, AI: Fn(u16) -> u16>(z: &[u16; 52], mi: MI, ai: AI) -> [u16; 52] {
    let mut d = [0u16; 52];
    let mut r = 1;
    while r <= 9 {
        let s = 6 * (10 - r - 1); // first sub-key of encryption round 10-r
        let o = 6 * (r - 1);
        d[o] = mi(z[s]);
        if r == 1 || r == 9 {
            d[o + 1] = ai(z[s + 1]);
            d[o + 2] = ai(z[s + 2]);
        } else {
            d[o + 1] = ai(z[s + 2]);
            d[o + 2] = ai(z[s + 1]);
        }
        d[o + 3] = mi(z[s + 3]);
        if r <= 8 {
            let t = 6 * (9 - r - 1);
            d[o + 4] = z[t + 4];
            d[o + 5] = z[t + 5];
        }
        r += 1;
    }
    d
}
pub fn invert(z: &[u16; 52]) -> [u16; 52] {
    invert_with(z, mul_inv, add_inv)
}

/// The data path: 8 rounds, the two middle sub-blocks are exchanged after every round except the last, then the
/// output transformation.
pub fn crypt_with<M: Fn(u16, u16) -> u16>(k: &[u16; 52], block: &[u8; 8], m: M) -> [u8; 8] {
    let mut x = [0u16; 4];
    let mut i = 0;
    while i < 4 {
        x[i] = ((block[2 * i] as u16) << 8) | block[2 * i + 1] as u16;
        i += 1;
    }
    let mut r = 0;
    while r < 8 {
        let z = 6 * r;
        let s1 = m(x[0], k[z]);
        let s2 = add(x[1], k[z + 1]);
        let s3 = add(x[2], k[z + 2]);
        let s4 = m(x[3], k[z + 3]);
        let s5 = s1 ^ s3;
        let s6 = s2 ^ s4;
        let s7 = m(s5, k[z + 4]);
        let s8 = add(s6, s7);
        let s9 = m(s8, k[z + 5]);
        let s10 = add(s7, s9);
        let o = [s1 ^ s9, s2 ^ s10, s3 ^ s9, s4 ^ s10];
        if r < 7 {
            x = [o[0], o[2], o[1], o[3]];
        } else {
            x = o;
        }
        r += 1;
    }
    // output transformation on the (un-exchanged) lines: Y1 = W1 (.) Z49, Y2 = W2 [+] Z50, Y3 = W3 [+] Z51, Y4 = W4 (.) Z52
    let y = [m(x[0], k[48]), add(x[1], k[49]), add(x[2], k[50]), m(x[3], k[51])];
    let mut out = [0u8; 8];
    i = 0;
    while i < 4 {
        out[2 * i] = (y[i] >> 8) as u8;
        out[2 * i + 1] = y[i] as u8;
        i += 1;
    }
    out
}

pub fn encrypt(key: &[u8; 16], block: &[u8; 8]) -> [u8; 8] {
    crypt_with(&expand_key(key), block, mul)
}
pub fn decrypt(key: &[u8; 16], block: &[u8; 8]) -> [u8; 8] {
    crypt_with(&invert(&expand_key(key)), block, mul)
}

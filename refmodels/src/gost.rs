//! oracle for gost — to be written from the specification

//! GOST 28147-89 / GOST R 34.12-2015 "Magma", written from the standards' description.
//!
//! 64-bit block a = a1 || a0 (two 32-bit halves), 256-bit key K = K1 || ... || K8 (32-bit words), all words
//! big-endian as in GOST R 34.12-2015 (and as the `magma` crate does for every S-box set).
//!   t(a)      : the 32-bit word is split into eight 4-bit nibbles a7 || ... || a0 (a0 least significant),
//!               nibble i is replaced by pi_i(a_i)
//!   g[k](a)   = (t(a [+] k)) <<< 11                       ([+] = addition mod 2^32)
//!   G[k](a1, a0)  = (a0, g[k](a0) ^ a1)
//!   G*[k](a1, a0) = (g[k](a0) ^ a1) || a0
//!   round keys: K1..K8, K1..K8, K1..K8, K8..K1;  E = G*[K32] G[K31] ... G[K1];  D = G*[K1] G[K2] ... G[K32]
//! The substitution tables pi_0..pi_7 are parameters.  The bundled sets are data (no generating formula).

/// Eight substitution tables; `sb[i]` is applied to nibble `i` (bits 4i..4i+3).
pub type Sboxes = [[u8; 16]; 8];

/// Tc26 (data copied from magma/src/sboxes.rs, `Tc26::SBOX`)
pub const TC26: Sboxes = [
    [12, 4, 6, 2, 10, 5, 11, 9, 14, 8, 13, 7, 0, 3, 15, 1],
    [6, 8, 2, 3, 9, 10, 5, 12, 1, 14, 4, 7, 11, 13, 0, 15],
    [11, 3, 5, 8, 2, 15, 10, 13, 14, 1, 7, 4, 12, 9, 6, 0],
    [12, 8, 2, 1, 13, 4, 15, 6, 7, 0, 10, 5, 3, 14, 9, 11],
    [7, 15, 5, 10, 8, 1, 6, 13, 0, 9, 3, 14, 11, 4, 2, 12],
    [5, 13, 15, 6, 9, 2, 12, 10, 11, 7, 8, 1, 4, 3, 14, 0],
    [8, 14, 2, 5, 6, 9, 1, 12, 15, 4, 11, 0, 13, 10, 3, 7],
    [1, 7, 14, 13, 0, 5, 8, 3, 4, 15, 10, 6, 9, 12, 11, 2],
];

/// TestSbox (data copied from magma/src/sboxes.rs, `TestSbox::SBOX`)
pub const TEST: Sboxes = [
    [4, 10, 9, 2, 13, 8, 0, 14, 6, 11, 1, 12, 7, 15, 5, 3],
    [14, 11, 4, 12, 6, 13, 15, 10, 2, 3, 8, 1, 0, 7, 5, 9],
    [5, 8, 1, 13, 10, 3, 4, 2, 14, 15, 12, 7, 6, 0, 9, 11],
    [7, 13, 10, 1, 0, 8, 9, 15, 14, 4, 6, 12, 11, 2, 5, 3],
    [6, 12, 7, 1, 5, 15, 13, 8, 4, 10, 9, 14, 0, 3, 11, 2],
    [4, 11, 10, 0, 7, 2, 1, 13, 3, 6, 8, 5, 9, 12, 15, 14],
    [13, 11, 4, 1, 3, 15, 5, 9, 0, 10, 14, 7, 6, 8, 2, 12],
    [1, 15, 13, 0, 5, 7, 10, 4, 9, 2, 3, 14, 6, 11, 8, 12],
];

/// CryptoProA (data copied from magma/src/sboxes.rs, `CryptoProA::SBOX`)
pub const CRYPTOPRO_A: Sboxes = [
    [9, 6, 3, 2, 8, 11, 1, 7, 10, 4, 14, 15, 12, 0, 13, 5],
    [3, 7, 14, 9, 8, 10, 15, 0, 5, 2, 6, 12, 11, 4, 13, 1],
    [14, 4, 6, 2, 11, 3, 13, 8, 12, 15, 5, 10, 0, 7, 1, 9],
    [14, 7, 10, 12, 13, 1, 3, 9, 0, 2, 11, 4, 15, 8, 5, 6],
    [11, 5, 1, 9, 8, 13, 15, 0, 14, 4, 2, 3, 12, 7, 10, 6],
    [3, 10, 13, 12, 1, 2, 0, 11, 7, 5, 9, 4, 8, 15, 14, 6],
    [1, 13, 2, 9, 7, 10, 6, 0, 8, 12, 4, 5, 15, 3, 11, 14],
    [11, 10, 15, 5, 0, 12, 14, 8, 6, 2, 3, 9, 1, 7, 13, 4],
];

/// CryptoProB (data copied from magma/src/sboxes.rs, `CryptoProB::SBOX`)
pub const CRYPTOPRO_B: Sboxes = [
    [8, 4, 11, 1, 3, 5, 0, 9, 2, 14, 10, 12, 13, 6, 7, 15],
    [0, 1, 2, 10, 4, 13, 5, 12, 9, 7, 3, 15, 11, 8, 6, 14],
    [14, 12, 0, 10, 9, 2, 13, 11, 7, 5, 8, 15, 3, 6, 1, 4],
    [7, 5, 0, 13, 11, 6, 1, 2, 3, 10, 12, 15, 4, 14, 9, 8],
    [2, 7, 12, 15, 9, 5, 10, 11, 1, 4, 0, 13, 6, 8, 14, 3],
    [8, 3, 2, 6, 4, 13, 14, 11, 12, 1, 7, 15, 10, 0, 9, 5],
    [5, 2, 10, 11, 9, 1, 12, 3, 7, 4, 13, 0, 6, 15, 8, 14],
    [0, 4, 11, 14, 8, 3, 7, 1, 10, 2, 9, 6, 15, 13, 5, 12],
];

/// CryptoProC (data copied from magma/src/sboxes.rs, `CryptoProC::SBOX`)
pub const CRYPTOPRO_C: Sboxes = [
    [1, 11, 12, 2, 9, 13, 0, 15, 4, 5, 8, 14, 10, 7, 6, 3],
    [0, 1, 7, 13, 11, 4, 5, 2, 8, 14, 15, 12, 9, 10, 6, 3],
    [8, 2, 5, 0, 4, 9, 15, 10, 3, 7, 12, 13, 6, 14, 1, 11],
    [3, 6, 0, 1, 5, 13, 10, 8, 11, 2, 9, 7, 14, 15, 12, 4],
    [8, 13, 11, 0, 4, 5, 1, 2, 9, 3, 12, 14, 6, 15, 10, 7],
    [12, 9, 11, 1, 8, 14, 2, 4, 7, 3, 6, 5, 10, 0, 15, 13],
    [10, 9, 6, 8, 13, 14, 2, 0, 15, 3, 5, 11, 4, 1, 12, 7],
    [7, 4, 0, 5, 10, 2, 15, 14, 12, 6, 1, 11, 13, 9, 3, 8],
];

/// CryptoProD (data copied from magma/src/sboxes.rs, `CryptoProD::SBOX`)
pub const CRYPTOPRO_D: Sboxes = [
    [10, 4, 5, 6, 8, 1, 3, 7, 13, 12, 14, 0, 9, 2, 11, 15],
    [5, 15, 4, 0, 2, 13, 11, 9, 1, 7, 6, 3, 12, 14, 10, 8],
    [7, 15, 12, 14, 9, 4, 1, 0, 3, 11, 5, 2, 6, 10, 8, 13],
    [4, 10, 7, 12, 0, 15, 2, 8, 14, 1, 6, 5, 13, 11, 9, 3],
    [7, 6, 4, 11, 9, 12, 2, 10, 1, 8, 0, 14, 15, 13, 3, 5],
    [7, 6, 2, 4, 13, 9, 15, 0, 10, 1, 5, 11, 8, 14, 12, 3],
    [13, 14, 4, 1, 7, 0, 5, 10, 3, 12, 8, 15, 6, 2, 9, 11],
    [1, 3, 10, 9, 5, 11, 4, 15, 8, 6, 7, 14, 13, 0, 2, 12],
];

/// A set that is not bundled with the crate (eight pseudo-random permutations of 0..15, generated once with a
/// fixed seed): stands for a "user-supplied" set in the harnesses.
pub const USER_A: Sboxes = [
    [10, 12, 13, 11, 6, 3, 14, 1, 8, 4, 7, 2, 5, 15, 9, 0],
    [14, 11, 7, 3, 4, 13, 5, 0, 8, 9, 2, 10, 1, 12, 6, 15],
    [1, 13, 12, 7, 6, 3, 15, 11, 8, 2, 4, 0, 14, 10, 5, 9],
    [5, 0, 6, 1, 8, 14, 15, 2, 3, 7, 13, 4, 12, 11, 9, 10],
    [13, 6, 15, 14, 7, 5, 4, 12, 10, 0, 11, 8, 1, 2, 3, 9],
    [10, 4, 2, 9, 6, 13, 5, 15, 7, 1, 8, 12, 3, 11, 14, 0],
    [15, 14, 8, 9, 6, 12, 7, 3, 10, 5, 0, 2, 1, 11, 4, 13],
    [7, 13, 11, 3, 12, 9, 5, 2, 14, 10, 8, 6, 0, 4, 1, 15],
];

/// A user-supplied set whose tables are not permutations (arbitrary 4-bit to 4-bit tables).
pub const USER_B: Sboxes = [
    [1, 7, 10, 11, 7, 6, 5, 10, 9, 4, 10, 4, 2, 15, 0, 10],
    [6, 0, 10, 0, 6, 14, 7, 1, 2, 9, 7, 4, 3, 0, 12, 14],
    [7, 12, 15, 15, 7, 11, 0, 3, 12, 11, 15, 15, 11, 5, 13, 11],
    [8, 1, 14, 12, 9, 13, 5, 12, 8, 14, 13, 1, 3, 1, 12, 6],
    [10, 3, 3, 7, 7, 2, 3, 4, 15, 3, 10, 9, 6, 2, 4, 8],
    [12, 1, 10, 0, 8, 7, 8, 4, 4, 15, 4, 8, 14, 1, 4, 15],
    [9, 6, 9, 0, 5, 10, 5, 11, 5, 5, 1, 6, 0, 6, 0, 11],
    [10, 8, 8, 10, 8, 3, 0, 10, 10, 1, 1, 2, 13, 3, 5, 15],
];

/// t: nibble-wise substitution.
pub fn t(sb: &Sboxes, a: u32) -> u32 {
    let mut out = 0u32;
    let mut i = 0;
    while i < 8 {
        let nib = ((a >> (4 * i)) & 0xF) as usize;
        out |= ((sb[i][nib] & 0xF) as u32) << (4 * i);
        i += 1;
    }
    out
}

/// g[k](a) = t(a + k mod 2^32) <<< 11
pub fn g(sb: &Sboxes, a: u32, k: u32) -> u32 {
    t(sb, a.wrapping_add(k)).rotate_left(11)
}

/// Index (0-based, into K1..K8) of the round key of round `r` (0-based, 0..32) of the encryption.
pub fn key_index(r: usize) -> usize {
    if r < 24 {
        r % 8
    } else {
        7 - (r % 8)
    }
}

fn be32(b: &[u8], o: usize) -> u32 {
    ((b[o] as u32) << 24) | ((b[o + 1] as u32) << 16) | ((b[o + 2] as u32) << 8) | (b[o + 3] as u32)
}

/// The 32-round network with the round function `gf(a, k)` as a parameter (leaf: `SboxExt::g` of the crate).
pub fn crypt_with<G: Fn(u32, u32) -> u32>(key: &[u8; 32], block: &[u8; 8], decrypt: bool, gf: G) -> [u8; 8] {
    let mut k = [0u32; 8];
    let mut i = 0;
    while i < 8 {
        k[i] = be32(key, 4 * i);
        i += 1;
    }
    let mut a1 = be32(block, 0);
    let mut a0 = be32(block, 4);
    let mut r = 0;
    while r < 32 {
        let rk = if decrypt { k[key_index(31 - r)] } else { k[key_index(r)] };
        let n = gf(a0, rk) ^ a1;
        if r < 31 {
            // G[k](a1, a0) = (a0, g[k](a0) ^ a1)
            a1 = a0;
            a0 = n;
        } else {
            // G*[k](a1, a0) = (g[k](a0) ^ a1) || a0
            a1 = n;
        }
        r += 1;
    }
    let x = a1.to_be_bytes();
    let y = a0.to_be_bytes();
    [x[0], x[1], x[2], x[3], y[0], y[1], y[2], y[3]]
}

pub fn encrypt(sb: &Sboxes, key: &[u8; 32], block: &[u8; 8]) -> [u8; 8] {
    crypt_with(key, block, false, |a, k| g(sb, a, k))
}
pub fn decrypt(sb: &Sboxes, key: &[u8; 32], block: &[u8; 8]) -> [u8; 8] {
    crypt_with(key, block, true, |a, k| g(sb, a, k))
}

//! oracle for rc2 — to be written from the specification

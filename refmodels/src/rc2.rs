//! RC2 (RFC 2268), written from the RFC's description: key expansion (section 2) with effective key length T1,
//! "mix up" / "mash" rounds (section 3), "r-mix up" / "r-mash" (section 4).
//! PITABLE is data of the RFC ("a random permutation of 0..255 derived from the expansion of pi"); copied from the
//! repository's rc2/src/consts.rs.

pub const PITABLE: [u8; 256] = [
    217, 120, 249, 196, 25, 221, 181, 237, 40, 233, 253, 121, 74, 160, 216, 157, 198, 126, 55, 131,
    43, 118, 83, 142, 98, 76, 100, 136, 68, 139, 251, 162, 23, 154, 89, 245, 135, 179, 79, 19, 97,
    69, 109, 141, 9, 129, 125, 50, 189, 143, 64, 235, 134, 183, 123, 11, 240, 149, 33, 34, 92, 107,
    78, 130, 84, 214, 101, 147, 206, 96, 178, 28, 115, 86, 192, 20, 167, 140, 241, 220, 18, 117,
    202, 31, 59, 190, 228, 209, 66, 61, 212, 48, 163, 60, 182, 38, 111, 191, 14, 218, 70, 105, 7,
    87, 39, 242, 29, 155, 188, 148, 67, 3, 248, 17, 199, 246, 144, 239, 62, 231, 6, 195, 213, 47,
    200, 102, 30, 215, 8, 232, 234, 222, 128, 82, 238, 247, 132, 170, 114, 172, 53, 77, 106, 42,
    150, 26, 210, 113, 90, 21, 73, 116, 75, 159, 208, 94, 4, 24, 164, 236, 194, 224, 65, 110, 15,
    81, 203, 204, 36, 145, 175, 80, 161, 244, 112, 57, 153, 124, 58, 133, 35, 184, 180, 122, 252,
    2, 54, 91, 37, 85, 151, 49, 45, 93, 250, 152, 227, 138, 146, 174, 5, 223, 41, 16, 103, 108,
    186, 201, 211, 0, 230, 207, 225, 158, 168, 44, 99, 22, 1, 63, 88, 226, 137, 169, 13, 56, 52,
    27, 171, 51, 255, 176, 187, 72, 12, 95, 185, 177, 205, 46, 197, 243, 219, 71, 229, 165, 156,
    119, 10, 166, 32, 104, 254, 127, 193, 173,
];

/// Key expansion: `key[..t]` is the supplied key (1 <= t <= 128), `t1` the effective key length in bits
/// (1 <= t1 <= 1024).  Returns K[0..63] with K[i] = L[2i] + 256*L[2i+1].
pub fn expand_key(key: &[u8; 128], t: usize, t1: usize) -> [u16; 64] {
    expand_key_with(key, t, t1, |i| PITABLE[i as usize])
}
/// The same with the PITABLE look-up as a parameter.
pub fn expand_key_with<P: FnMut(u8) -> u8>(key: &[u8; 128], t: usize, t1: usize, mut pi: P) -> [u16; 64] {
    let t8 = (t1 + 7) / 8;
    // TM = 255 MOD 2^(8 + T1 - 8*T8)
    let tm = (255u32 % (1u32 << (8 + t1 - 8 * t8))) as u8;
    let mut l = [0u8; 128];
    let mut i = 0;
    while i < t {
        l[i] = key[i];
        i += 1;
    }
    // for i = T, T+1, ..., 127 do L[i] = PITABLE[L[i-1] + L[i-T]] (addition mod 256)
    i = t;
    while i <= 127 {
        l[i] = pi(((l[i - 1] as u32 + l[i - t] as u32) & 255) as u8);
        i += 1;
    }
    // L[128-T8] = PITABLE[L[128-T8] & TM]
    l[128 - t8] = pi(l[128 - t8] & tm);
    // for i = 127-T8 down to 0 do L[i] = PITABLE[L[i+1] XOR L[i+T8]]
    i = 128 - t8;
    while i > 0 {
        i -= 1;
        l[i] = pi(l[i + 1] ^ l[i + t8]);
    }
    let mut k = [0u16; 64];
    i = 0;
    while i < 64 {
        k[i] = (l[2 * i] as u16) + 256 * (l[2 * i + 1] as u16);
        i += 1;
    }
    k
}

/// The same key expansion with every loop running over the fixed index range 0..127 and the RFC's loop bounds turned
/// into conditions on the index (all writes at constant positions; used where T and T1 are symbolic).
pub fn expand_key_g(key: &[u8; 128], t: usize, t1: usize) -> [u16; 64] {
    let t8 = (t1 + 7) / 8;
    let tm = (255u32 % (1u32 << (8 + t1 - 8 * t8))) as u8;
    let mut l = [0u8; 128];
    let mut i = 0;
    while i < 128 {
        if i < t {
            l[i] = key[i];
        } else {
            l[i] = PITABLE[(l[i - 1].wrapping_add(l[i - t])) as usize];
        }
        i += 1;
    }
    l[128 - t8] = PITABLE[(l[128 - t8] & tm) as usize];
    let mut n = 0;
    while n < 128 {
        let i = 127 - n;
        if i + t8 <= 127 {
            l[i] = PITABLE[(l[i + 1] ^ l[i + t8]) as usize];
        }
        n += 1;
    }
    let mut k = [0u16; 64];
    i = 0;
    while i < 64 {
        k[i] = (l[2 * i] as u16) + 256 * (l[2 * i + 1] as u16);
        i += 1;
    }
    k
}

const S: [u32; 4] = [1, 2, 3, 5];

/// Mix up R[i]: R[i] = R[i] + K[j] + (R[i-1] & R[i-2]) + ((~R[i-1]) & R[i-3]); j = j + 1; R[i] = R[i] rol s[i]
fn mix_up(r: &mut [u16; 4], i: usize, k: &[u16; 64], j: &mut usize) {
    let r1 = r[(i + 3) % 4];
    let r2 = r[(i + 2) % 4];
    let r3 = r[(i + 1) % 4];
    r[i] = r[i].wrapping_add(k[*j]).wrapping_add(r1 & r2).wrapping_add(!r1 & r3);
    *j += 1;
    r[i] = r[i].rotate_left(S[i]);
}
/// Mash R[i]: R[i] = R[i] + K[R[i-1] & 63]
fn mash(r: &mut [u16; 4], i: usize, k: &[u16; 64]) {
    r[i] = r[i].wrapping_add(k[(r[(i + 3) % 4] & 63) as usize]);
}
/// R-Mix up R[i]: R[i] = R[i] ror s[i]; R[i] = R[i] - K[j] - (R[i-1] & R[i-2]) - ((~R[i-1]) & R[i-3]); j = j - 1
fn r_mix_up(r: &mut [u16; 4], i: usize, k: &[u16; 64], j: &mut usize) {
    let r1 = r[(i + 3) % 4];
    let r2 = r[(i + 2) % 4];
    let r3 = r[(i + 1) % 4];
    r[i] = r[i].rotate_right(S[i]);
    r[i] = r[i].wrapping_sub(k[*j]).wrapping_sub(r1 & r2).wrapping_sub(!r1 & r3);
    *j = j.wrapping_sub(1);
}
/// R-Mash R[i]: R[i] = R[i] - K[R[i-1] & 63]
fn r_mash(r: &mut [u16; 4], i: usize, k: &[u16; 64]) {
    r[i] = r[i].wrapping_sub(k[(r[(i + 3) % 4] & 63) as usize]);
}

fn load(b: &[u8; 8]) -> [u16; 4] {
    let mut r = [0u16; 4];
    let mut i = 0;
    while i < 4 {
        r[i] = (b[2 * i] as u16) + 256 * (b[2 * i + 1] as u16);
        i += 1;
    }
    r
}
fn store(r: &[u16; 4]) -> [u8; 8] {
    let mut o = [0u8; 8];
    let mut i = 0;
    while i < 4 {
        o[2 * i] = (r[i] & 255) as u8;
        o[2 * i + 1] = (r[i] >> 8) as u8;
        i += 1;
    }
    o
}

/// 5 mixing rounds, 1 mashing round, 6 mixing rounds, 1 mashing round, 5 mixing rounds.
pub fn encrypt_k(k: &[u16; 64], block: &[u8; 8]) -> [u8; 8] {
    let mut r = load(block);
    let mut j = 0usize;
    let mut round = 0;
    while round < 16 {
        let mut i = 0;
        while i < 4 {
            mix_up(&mut r, i, k, &mut j);
            i += 1;
        }
        if round == 4 || round == 10 {
            i = 0;
            while i < 4 {
                mash(&mut r, i, k);
                i += 1;
            }
        }
        round += 1;
    }
    store(&r)
}

/// 5 r-mixing rounds, 1 r-mashing round, 6 r-mixing rounds, 1 r-mashing round, 5 r-mixing rounds; j starts at 63.
pub fn decrypt_k(k: &[u16; 64], block: &[u8; 8]) -> [u8; 8] {
    let mut r = load(block);
    let mut j = 63usize;
    let mut round = 0;
    while round < 16 {
        let mut n = 0;
        while n < 4 {
            r_mix_up(&mut r, 3 - n, k, &mut j);
            n += 1;
        }
        if round == 4 || round == 10 {
            n = 0;
            while n < 4 {
                r_mash(&mut r, 3 - n, k);
                n += 1;
            }
        }
        round += 1;
    }
    store(&r)
}

pub fn encrypt(key: &[u8; 128], t: usize, t1: usize, block: &[u8; 8]) -> [u8; 8] {
    encrypt_k(&expand_key(key, t, t1), block)
}
pub fn decrypt(key: &[u8; 128], t: usize, t1: usize, block: &[u8; 8]) -> [u8; 8] {
    decrypt_k(&expand_key(key, t, t1), block)
}

//! FIPS-197 AES, written from the standard (sections 4, 5.1-5.3): byte-array state in input order
//! (state byte (r, c) = block[r + 4c]), S-box generated from its algebraic definition, textbook KeyExpansion,
//! Cipher, InvCipher and EqInvCipher (5.3.5).  Leaves are parameters so that wiring queries can share uninterpreted
//! functions with the implementation.

/// Multiplication in GF(2^8) modulo x^8 + x^4 + x^3 + x + 1.
pub const fn gmul(mut a: u8, mut b: u8) -> u8 {
    let mut p = 0u8;
    let mut i = 0;
    while i < 8 {
        if b & 1 == 1 {
            p ^= a;
        }
        let hi = a & 0x80;
        a <<= 1;
        if hi != 0 {
            a ^= 0x1b;
        }
        b >>= 1;
        i += 1;
    }
    p
}
const fn ginv(a: u8) -> u8 {
    // a^254
    if a == 0 {
        return 0;
    }
    let mut r = 1u8;
    let mut i = 0;
    while i < 254 {
        r = gmul(r, a);
        i += 1;
    }
    r
}
const fn affine(x: u8) -> u8 {
    x ^ x.rotate_left(1) ^ x.rotate_left(2) ^ x.rotate_left(3) ^ x.rotate_left(4) ^ 0x63
}
const fn gen_sbox() -> [u8; 256] {
    let mut t = [0u8; 256];
    let mut i = 0;
    while i < 256 {
        t[i] = affine(ginv(i as u8));
        i += 1;
    }
    t
}
const fn gen_inv(t: &[u8; 256]) -> [u8; 256] {
    let mut o = [0u8; 256];
    let mut i = 0;
    while i < 256 {
        o[t[i] as usize] = i as u8;
        i += 1;
    }
    o
}
pub const SBOX: [u8; 256] = gen_sbox();
pub const INV_SBOX: [u8; 256] = gen_inv(&SBOX);

pub fn sbox(x: u8) -> u8 {
    SBOX[x as usize]
}
pub fn inv_sbox(x: u8) -> u8 {
    INV_SBOX[x as usize]
}

pub type State = [u8; 16];

pub fn xor(a: &State, b: &State) -> State {
    let mut o = [0u8; 16];
    let mut i = 0;
    while i < 16 {
        o[i] = a[i] ^ b[i];
        i += 1;
    }
    o
}
pub fn sub_bytes_with<S: Fn(u8) -> u8>(s: &State, sb: &S) -> State {
    let mut o = [0u8; 16];
    let mut i = 0;
    while i < 16 {
        o[i] = sb(s[i]);
        i += 1;
    }
    o
}
/// ShiftRows: row r is rotated left by r: s'[r][c] = s[r][(c + r) mod 4].
pub fn shift_rows(s: &State) -> State {
    let mut o = [0u8; 16];
    let mut c = 0;
    while c < 4 {
        let mut r = 0;
        while r < 4 {
            o[r + 4 * c] = s[r + 4 * ((c + r) % 4)];
            r += 1;
        }
        c += 1;
    }
    o
}
pub fn inv_shift_rows(s: &State) -> State {
    let mut o = [0u8; 16];
    let mut c = 0;
    while c < 4 {
        let mut r = 0;
        while r < 4 {
            o[r + 4 * ((c + r) % 4)] = s[r + 4 * c];
            r += 1;
        }
        c += 1;
    }
    o
}
fn mix_with(s: &State, m: [u8; 4]) -> State {
    // column' = circulant(m) * column
    let mut o = [0u8; 16];
    let mut c = 0;
    while c < 4 {
        let mut r = 0;
        while r < 4 {
            let mut v = 0u8;
            let mut k = 0;
            while k < 4 {
                v ^= gmul(m[(k + 4 - r) % 4], s[k + 4 * c]);
                k += 1;
            }
            o[r + 4 * c] = v;
            r += 1;
        }
        c += 1;
    }
    o
}
pub fn mix_columns(s: &State) -> State {
    mix_with(s, [2, 3, 1, 1])
}
pub fn inv_mix_columns(s: &State) -> State {
    mix_with(s, [0x0e, 0x0b, 0x0d, 0x09])
}

/// The unkeyed part of a full round / of the last round, and their inverses (what AESENC/AESENCLAST/AESDEC/AESDECLAST
/// compute before the final XOR with the round key).
pub fn round_core(s: &State) -> State {
    mix_columns(&shift_rows(&sub_bytes_with(s, &sbox)))
}
pub fn last_core(s: &State) -> State {
    shift_rows(&sub_bytes_with(s, &sbox))
}
pub fn inv_round_core(s: &State) -> State {
    // EqInvCipher round: InvSubBytes, InvShiftRows, InvMixColumns
    inv_mix_columns(&inv_shift_rows(&sub_bytes_with(s, &inv_sbox)))
}
pub fn inv_last_core(s: &State) -> State {
    inv_shift_rows(&sub_bytes_with(s, &inv_sbox))
}

pub fn sub_word(w: u32) -> u32 {
    let b = w.to_be_bytes();
    u32::from_be_bytes([sbox(b[0]), sbox(b[1]), sbox(b[2]), sbox(b[3])])
}
pub const RCON: [u8; 10] = [0x01, 0x02, 0x04, 0x08, 0x10, 0x20, 0x40, 0x80, 0x1b, 0x36];

pub const MAX_RK: usize = 15;
/// KeyExpansion (5.2).  `key` holds nk*4 bytes (nk = 4, 6, 8); returns the nr+1 round keys (nr = nk + 6) as blocks.
/// Words are big-endian (w = b0 b1 b2 b3 with b0 the first key byte), as in the standard.
pub fn key_expansion_with<W: Fn(u32) -> u32>(key: &[u8], nk: usize, subword: W) -> [State; MAX_RK] {
    let nr = nk + 6;
    let mut w = [0u32; 60];
    let mut i = 0;
    while i < nk {
        w[i] = u32::from_be_bytes([key[4 * i], key[4 * i + 1], key[4 * i + 2], key[4 * i + 3]]);
        i += 1;
    }
    while i < 4 * (nr + 1) {
        let mut t = w[i - 1];
        if i % nk == 0 {
            t = subword(t.rotate_left(8)) ^ ((RCON[i / nk - 1] as u32) << 24);
        } else if nk > 6 && i % nk == 4 {
            t = subword(t);
        }
        w[i] = w[i - nk] ^ t;
        i += 1;
    }
    let mut rk = [[0u8; 16]; MAX_RK];
    let mut r = 0;
    while r <= nr {
        let mut c = 0;
        while c < 4 {
            let b = w[4 * r + c].to_be_bytes();
            rk[r][4 * c] = b[0];
            rk[r][4 * c + 1] = b[1];
            rk[r][4 * c + 2] = b[2];
            rk[r][4 * c + 3] = b[3];
            c += 1;
        }
        r += 1;
    }
    rk
}

/// Cipher (5.1) with the unkeyed round bodies as parameters.
pub fn cipher_with<R: Fn(&State) -> State, L: Fn(&State) -> State>(rk: &[State; MAX_RK], nr: usize, block: &State, round: R, last: L) -> State {
    let mut s = xor(block, &rk[0]);
    let mut r = 1;
    while r < nr {
        s = xor(&round(&s), &rk[r]);
        r += 1;
    }
    xor(&last(&s), &rk[nr])
}
/// Cipher with the byte S-box as parameter (linear layers real).
pub fn cipher_sb_with<S: Fn(u8) -> u8>(rk: &[State; MAX_RK], nr: usize, block: &State, sb: S) -> State {
    cipher_with(rk, nr, block, |s| mix_columns(&shift_rows(&sub_bytes_with(s, &sb))), |s| shift_rows(&sub_bytes_with(s, &sb)))
}
/// InvCipher (5.3), straight form: InvShiftRows, InvSubBytes, AddRoundKey, InvMixColumns.
pub fn inv_cipher_sb_with<S: Fn(u8) -> u8>(rk: &[State; MAX_RK], nr: usize, block: &State, isb: S) -> State {
    let mut s = xor(block, &rk[nr]);
    let mut r = nr - 1;
    while r >= 1 {
        s = sub_bytes_with(&inv_shift_rows(&s), &isb);
        s = inv_mix_columns(&xor(&s, &rk[r]));
        r -= 1;
    }
    xor(&sub_bytes_with(&inv_shift_rows(&s), &isb), &rk[0])
}
/// EqInvCipher (5.3.5): dw[0] = w[nr], dw[i] = InvMixColumns(w[nr - i]) for 0 < i < nr, dw[nr] = w[0].
pub fn eq_inv_keys_with<M: Fn(&State) -> State>(rk: &[State; MAX_RK], nr: usize, imc: M) -> [State; MAX_RK] {
    let mut dw = [[0u8; 16]; MAX_RK];
    dw[0] = rk[nr];
    let mut i = 1;
    while i < nr {
        dw[i] = imc(&rk[nr - i]);
        i += 1;
    }
    dw[nr] = rk[0];
    dw
}
pub fn eq_inv_cipher_with<R: Fn(&State) -> State, L: Fn(&State) -> State>(dw: &[State; MAX_RK], nr: usize, block: &State, round: R, last: L) -> State {
    // same shape as Cipher, with the inverse round bodies and the transformed keys
    cipher_with(dw, nr, block, round, last)
}

fn nk_of(keylen: usize) -> usize {
    keylen / 4
}
pub fn encrypt(key: &[u8], block: &State) -> State {
    let nk = nk_of(key.len());
    let rk = key_expansion_with(key, nk, sub_word);
    cipher_sb_with(&rk, nk + 6, block, sbox)
}
pub fn decrypt(key: &[u8], block: &State) -> State {
    let nk = nk_of(key.len());
    let rk = key_expansion_with(key, nk, sub_word);
    inv_cipher_sb_with(&rk, nk + 6, block, inv_sbox)
}
/// Decryption through the equivalent inverse cipher (must equal `decrypt`; checked natively and by an oracle-only query).
pub fn decrypt_eq(key: &[u8], block: &State) -> State {
    let nk = nk_of(key.len());
    let rk = key_expansion_with(key, nk, sub_word);
    let dw = eq_inv_keys_with(&rk, nk + 6, inv_mix_columns);
    eq_inv_cipher_with(&dw, nk + 6, block, inv_round_core, inv_last_core)
}

// ---- added for the software-backend wiring queries (family F); existing items above are unchanged
/// InvCipher (5.3), straight form, with the inverse S-box AND InvMixColumns as parameters; statement for statement the
/// same as `inv_cipher_sb_with` (which is this function with `imc = inv_mix_columns`).
pub fn inv_cipher_with<S: Fn(u8) -> u8, M: Fn(&State) -> State>(rk: &[State; MAX_RK], nr: usize, block: &State, isb: S, imc: M) -> State {
    let mut s = xor(block, &rk[nr]);
    let mut r = nr - 1;
    while r >= 1 {
        s = sub_bytes_with(&inv_shift_rows(&s), &isb);
        s = imc(&xor(&s, &rk[r]));
        r -= 1;
    }
    xor(&sub_bytes_with(&inv_shift_rows(&s), &isb), &rk[0])
}
/// Cipher (5.1) with the S-box AND MixColumns as parameters (`cipher_sb_with` is this function with `mc = mix_columns`).
pub fn cipher_sb_mc_with<S: Fn(u8) -> u8, M: Fn(&State) -> State>(rk: &[State; MAX_RK], nr: usize, block: &State, sb: S, mc: M) -> State {
    cipher_with(rk, nr, block, |s| mc(&shift_rows(&sub_bytes_with(s, &sb))), |s| shift_rows(&sub_bytes_with(s, &sb)))
}

//! oracle for aes — to be written from the specification

//! oracle for gift — to be written from the specification

//! GIFT-128, written from Banik, Pandey, Peyrin, Sasaki, Sim, Todo, "GIFT: A Small Present" (CHES 2017,
//! ePrint 2017/622), section 2 -- the plain bit-level description, NOT the fixsliced / bitsliced one.
//!
//!   state  b_127 .. b_0, nibbles w_i = b_{4i+3} b_{4i+2} b_{4i+1} b_{4i};  key state k_7 || .. || k_0 (16-bit words)
//!   SubCells:    w_i <- GS(w_i)
//!   PermBits:    b_{P128(i)} <- b_i,  P128(i) = 4 floor(i/16) + 32 ((3 floor((i mod 16)/4) + (i mod 4)) mod 4) + (i mod 4)
//!   AddRoundKey: U = k_5 || k_4, V = k_1 || k_0;  b_{4i+2} ^= u_i, b_{4i+1} ^= v_i (i = 0..31);
//!                b_127 ^= 1;  b_23, b_19, b_15, b_11, b_7, b_3 ^= c_5, c_4, c_3, c_2, c_1, c_0
//!   key update:  k_7 || k_6 || .. || k_0 <- (k_1 >>> 2) || (k_0 >>> 12) || k_7 || .. || k_2
//!   constants:   (c_5 .. c_0) <- (c_4, c_3, c_2, c_1, c_0, c_5 ^ c_4 ^ 1), initialised to 0, updated before use
//!   40 rounds.
//! The S-box GS is data of the specification.  Bytes: most significant first (block byte 0 = b_127..b_120, key byte
//! 0 = high byte of k_7), as in the designers' test vectors.

pub const GS: [u8; 16] = [0x1, 0xa, 0x4, 0xc, 0x6, 0xf, 0x3, 0x9, 0x2, 0xd, 0xb, 0x7, 0x5, 0x0, 0x8, 0xe];
pub const ROUNDS: usize = 40;

pub fn gs_inv(y: u8) -> u8 {
    let mut x = 0u8;
    let mut i = 0u8;
    while i < 16 {
        if GS[i as usize] == y {
            x = i;
        }
        i += 1;
    }
    x
}

pub fn p128(i: usize) -> usize {
    4 * (i / 16) + 32 * ((3 * ((i % 16) / 4) + (i % 4)) % 4) + (i % 4)
}

pub fn sub_cells(s: u128) -> u128 {
    let mut o = 0u128;
    let mut i = 0;
    while i < 32 {
        let w = ((s >> (4 * i)) & 0xf) as usize;
        o |= (GS[w] as u128) << (4 * i);
        i += 1;
    }
    o
}
pub fn inv_sub_cells(s: u128) -> u128 {
    let mut inv = [0u8; 16];
    let mut i = 0;
    while i < 16 {
        inv[GS[i] as usize] = i as u8;
        i += 1;
    }
    let mut o = 0u128;
    i = 0;
    while i < 32 {
        let w = ((s >> (4 * i)) & 0xf) as usize;
        o |= (inv[w] as u128) << (4 * i);
        i += 1;
    }
    o
}
pub fn perm_bits(s: u128) -> u128 {
    let mut o = 0u128;
    let mut i = 0;
    while i < 128 {
        o |= ((s >> i) & 1) << p128(i);
        i += 1;
    }
    o
}
pub fn inv_perm_bits(s: u128) -> u128 {
    let mut o = 0u128;
    let mut i = 0;
    while i < 128 {
        o |= ((s >> p128(i)) & 1) << i;
        i += 1;
    }
    o
}

/// The 6-bit round constants c_5..c_0 of rounds 1..40.
pub fn round_constants() -> [u8; ROUNDS] {
    let mut rc = [0u8; ROUNDS];
    let mut c = 0u8;
    let mut r = 0;
    while r < ROUNDS {
        let fb = ((c >> 5) ^ (c >> 4) ^ 1) & 1;
        c = ((c << 1) | fb) & 0x3f;
        rc[r] = c;
        r += 1;
    }
    rc
}

/// Key words k_7..k_0 from the 16 key bytes (byte 0 = high byte of k_7); returned as w[i] = k_i.
pub fn key_words(key: &[u8; 16]) -> [u16; 8] {
    let mut w = [0u16; 8];
    let mut i = 0;
    while i < 8 {
        w[7 - i] = ((key[2 * i] as u16) << 8) | key[2 * i + 1] as u16;
        i += 1;
    }
    w
}
pub fn key_update(k: &[u16; 8]) -> [u16; 8] {
    [k[2], k[3], k[4], k[5], k[6], k[7], k[0].rotate_right(12), k[1].rotate_right(2)]
}

/// Round keys (U, V) of rounds 1..40.
pub fn round_keys(key: &[u8; 16]) -> [(u32, u32); ROUNDS] {
    let mut k = key_words(key);
    let mut rk = [(0u32, 0u32); ROUNDS];
    let mut r = 0;
    while r < ROUNDS {
        rk[r] = (((k[5] as u32) << 16) | k[4] as u32, ((k[1] as u32) << 16) | k[0] as u32);
        k = key_update(&k);
        r += 1;
    }
    rk
}

/// XOR mask of AddRoundKey (round key and round constant) on the 128-bit state.
pub fn add_mask(u: u32, v: u32, c: u8) -> u128 {
    let mut m = 1u128 << 127;
    let mut i = 0;
    while i < 32 {
        m ^= (((u >> i) & 1) as u128) << (4 * i + 2);
        m ^= (((v >> i) & 1) as u128) << (4 * i + 1);
        i += 1;
    }
    i = 0;
    while i < 6 {
        m ^= (((c >> i) & 1) as u128) << (4 * i + 3);
        i += 1;
    }
    m
}

pub fn round(s: u128, u: u32, v: u32, c: u8) -> u128 {
    perm_bits(sub_cells(s)) ^ add_mask(u, v, c)
}
pub fn inv_round(s: u128, u: u32, v: u32, c: u8) -> u128 {
    inv_sub_cells(inv_perm_bits(s ^ add_mask(u, v, c)))
}

/// Rounds `from..to` (0-based, to <= 40) on state `s`.
pub fn rounds(mut s: u128, rk: &[(u32, u32); ROUNDS], from: usize, to: usize) -> u128 {
    let rc = round_constants();
    let mut r = from;
    while r < to {
        s = round(s, rk[r].0, rk[r].1, rc[r]);
        r += 1;
    }
    s
}
pub fn inv_rounds(mut s: u128, rk: &[(u32, u32); ROUNDS], from: usize, to: usize) -> u128 {
    let rc = round_constants();
    let mut r = to;
    while r > from {
        r -= 1;
        s = inv_round(s, rk[r].0, rk[r].1, rc[r]);
    }
    s
}

pub fn encrypt(key: &[u8; 16], block: &[u8; 16]) -> [u8; 16] {
    rounds(u128::from_be_bytes(*block), &round_keys(key), 0, ROUNDS).to_be_bytes()
}
pub fn decrypt(key: &[u8; 16], block: &[u8; 16]) -> [u8; 16] {
    inv_rounds(u128::from_be_bytes(*block), &round_keys(key), 0, ROUNDS).to_be_bytes()
}

/// The bitsliced view used by table-free implementations: slice j (j = 0..3) collects bit j of every nibble,
/// slice_j bit i = b_{4i+j}.  (Pure re-indexing, used by harnesses to relate a packed state to the spec state.)
pub fn bitslice(s: u128) -> [u32; 4] {
    let mut o = [0u32; 4];
    let mut i = 0;
    while i < 32 {
        let mut j = 0;
        while j < 4 {
            o[j] |= (((s >> (4 * i + j)) & 1) as u32) << i;
            j += 1;
        }
        i += 1;
    }
    o
}
pub fn unbitslice(sl: &[u32; 4]) -> u128 {
    let mut s = 0u128;
    let mut i = 0;
    while i < 32 {
        let mut j = 0;
        while j < 4 {
            s |= (((sl[j] >> i) & 1) as u128) << (4 * i + j);
            j += 1;
        }
        i += 1;
    }
    s
}

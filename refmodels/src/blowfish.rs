//! oracle for blowfish — to be written from the specification

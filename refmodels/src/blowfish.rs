//! Blowfish (Schneier, "Description of a New Variable-Length Key, 64-Bit Block Cipher (Blowfish)", FSE 1993) and the
//! eksblowfish ExpandKey step (Provos, Mazieres, "A Future-Adaptable Password Scheme", USENIX 1999), written from
//! the papers' descriptions.
//! P_INIT / S_INIT are the hexadecimal digits of pi (data); copied from the repository's blowfish/src/consts.rs.
//!
//! Leaves exposed as generic parameters: the round function F (encipher_with / decipher_with) and the block
//! encryption used inside the key expansion (Expander / expand_key_with / eks_expand_key_with).

pub const P_INIT: [u32; 18] = [
    0x243f6a88, 0x85a308d3, 0x13198a2e, 0x03707344, 0xa4093822, 0x299f31d0, 0x082efa98, 0xec4e6c89,
    0x452821e6, 0x38d01377, 0xbe5466cf, 0x34e90c6c, 0xc0ac29b7, 0xc97c50dd, 0x3f84d5b5, 0xb5470917,
    0x9216d5d9, 0x8979fb1b,
];

pub const S_INIT: [[u32; 256]; 4] = [
    [
        0xd1310ba6, 0x98dfb5ac, 0x2ffd72db, 0xd01adfb7, 0xb8e1afed, 0x6a267e96, 0xba7c9045,
        0xf12c7f99, 0x24a19947, 0xb3916cf7, 0x0801f2e2, 0x858efc16, 0x636920d8, 0x71574e69,
        0xa458fea3, 0xf4933d7e, 0x0d95748f, 0x728eb658, 0x718bcd58, 0x82154aee, 0x7b54a41d,
        0xc25a59b5, 0x9c30d539, 0x2af26013, 0xc5d1b023, 0x286085f0, 0xca417918, 0xb8db38ef,
        0x8e79dcb0, 0x603a180e, 0x6c9e0e8b, 0xb01e8a3e, 0xd71577c1, 0xbd314b27, 0x78af2fda,
        0x55605c60, 0xe65525f3, 0xaa55ab94, 0x57489862, 0x63e81440, 0x55ca396a, 0x2aab10b6,
        0xb4cc5c34, 0x1141e8ce, 0xa15486af, 0x7c72e993, 0xb3ee1411, 0x636fbc2a, 0x2ba9c55d,
        0x741831f6, 0xce5c3e16, 0x9b87931e, 0xafd6ba33, 0x6c24cf5c, 0x7a325381, 0x28958677,
        0x3b8f4898, 0x6b4bb9af, 0xc4bfe81b, 0x66282193, 0x61d809cc, 0xfb21a991, 0x487cac60,
        0x5dec8032, 0xef845d5d, 0xe98575b1, 0xdc262302, 0xeb651b88, 0x23893e81, 0xd396acc5,
        0x0f6d6ff3, 0x83f44239, 0x2e0b4482, 0xa4842004, 0x69c8f04a, 0x9e1f9b5e, 0x21c66842,
        0xf6e96c9a, 0x670c9c61, 0xabd388f0, 0x6a51a0d2, 0xd8542f68, 0x960fa728, 0xab5133a3,
        0x6eef0b6c, 0x137a3be4, 0xba3bf050, 0x7efb2a98, 0xa1f1651d, 0x39af0176, 0x66ca593e,
        0x82430e88, 0x8cee8619, 0x456f9fb4, 0x7d84a5c3, 0x3b8b5ebe, 0xe06f75d8, 0x85c12073,
        0x401a449f, 0x56c16aa6, 0x4ed3aa62, 0x363f7706, 0x1bfedf72, 0x429b023d, 0x37d0d724,
        0xd00a1248, 0xdb0fead3, 0x49f1c09b, 0x075372c9, 0x80991b7b, 0x25d479d8, 0xf6e8def7,
        0xe3fe501a, 0xb6794c3b, 0x976ce0bd, 0x04c006ba, 0xc1a94fb6, 0x409f60c4, 0x5e5c9ec2,
        0x196a2463, 0x68fb6faf, 0x3e6c53b5, 0x1339b2eb, 0x3b52ec6f, 0x6dfc511f, 0x9b30952c,
        0xcc814544, 0xaf5ebd09, 0xbee3d004, 0xde334afd, 0x660f2807, 0x192e4bb3, 0xc0cba857,
        0x45c8740f, 0xd20b5f39, 0xb9d3fbdb, 0x5579c0bd, 0x1a60320a, 0xd6a100c6, 0x402c7279,
        0x679f25fe, 0xfb1fa3cc, 0x8ea5e9f8, 0xdb3222f8, 0x3c7516df, 0xfd616b15, 0x2f501ec8,
        0xad0552ab, 0x323db5fa, 0xfd238760, 0x53317b48, 0x3e00df82, 0x9e5c57bb, 0xca6f8ca0,
        0x1a87562e, 0xdf1769db, 0xd542a8f6, 0x287effc3, 0xac6732c6, 0x8c4f5573, 0x695b27b0,
        0xbbca58c8, 0xe1ffa35d, 0xb8f011a0, 0x10fa3d98, 0xfd2183b8, 0x4afcb56c, 0x2dd1d35b,
        0x9a53e479, 0xb6f84565, 0xd28e49bc, 0x4bfb9790, 0xe1ddf2da, 0xa4cb7e33, 0x62fb1341,
        0xcee4c6e8, 0xef20cada, 0x36774c01, 0xd07e9efe, 0x2bf11fb4, 0x95dbda4d, 0xae909198,
        0xeaad8e71, 0x6b93d5a0, 0xd08ed1d0, 0xafc725e0, 0x8e3c5b2f, 0x8e7594b7, 0x8ff6e2fb,
        0xf2122b64, 0x8888b812, 0x900df01c, 0x4fad5ea0, 0x688fc31c, 0xd1cff191, 0xb3a8c1ad,
        0x2f2f2218, 0xbe0e1777, 0xea752dfe, 0x8b021fa1, 0xe5a0cc0f, 0xb56f74e8, 0x18acf3d6,
        0xce89e299, 0xb4a84fe0, 0xfd13e0b7, 0x7cc43b81, 0xd2ada8d9, 0x165fa266, 0x80957705,
        0x93cc7314, 0x211a1477, 0xe6ad2065, 0x77b5fa86, 0xc75442f5, 0xfb9d35cf, 0xebcdaf0c,
        0x7b3e89a0, 0xd6411bd3, 0xae1e7e49, 0x00250e2d, 0x2071b35e, 0x226800bb, 0x57b8e0af,
        0x2464369b, 0xf009b91e, 0x5563911d, 0x59dfa6aa, 0x78c14389, 0xd95a537f, 0x207d5ba2,
        0x02e5b9c5, 0x83260376, 0x6295cfa9, 0x11c81968, 0x4e734a41, 0xb3472dca, 0x7b14a94a,
        0x1b510052, 0x9a532915, 0xd60f573f, 0xbc9bc6e4, 0x2b60a476, 0x81e67400, 0x08ba6fb5,
        0x571be91f, 0xf296ec6b, 0x2a0dd915, 0xb6636521, 0xe7b9f9b6, 0xff34052e, 0xc5855664,
        0x53b02d5d, 0xa99f8fa1, 0x08ba4799, 0x6e85076a,
    ],
    [
        0x4b7a70e9, 0xb5b32944, 0xdb75092e, 0xc4192623, 0xad6ea6b0, 0x49a7df7d, 0x9cee60b8,
        0x8fedb266, 0xecaa8c71, 0x699a17ff, 0x5664526c, 0xc2b19ee1, 0x193602a5, 0x75094c29,
        0xa0591340, 0xe4183a3e, 0x3f54989a, 0x5b429d65, 0x6b8fe4d6, 0x99f73fd6, 0xa1d29c07,
        0xefe830f5, 0x4d2d38e6, 0xf0255dc1, 0x4cdd2086, 0x8470eb26, 0x6382e9c6, 0x021ecc5e,
        0x09686b3f, 0x3ebaefc9, 0x3c971814, 0x6b6a70a1, 0x687f3584, 0x52a0e286, 0xb79c5305,
        0xaa500737, 0x3e07841c, 0x7fdeae5c, 0x8e7d44ec, 0x5716f2b8, 0xb03ada37, 0xf0500c0d,
        0xf01c1f04, 0x0200b3ff, 0xae0cf51a, 0x3cb574b2, 0x25837a58, 0xdc0921bd, 0xd19113f9,
        0x7ca92ff6, 0x94324773, 0x22f54701, 0x3ae5e581, 0x37c2dadc, 0xc8b57634, 0x9af3dda7,
        0xa9446146, 0x0fd0030e, 0xecc8c73e, 0xa4751e41, 0xe238cd99, 0x3bea0e2f, 0x3280bba1,
        0x183eb331, 0x4e548b38, 0x4f6db908, 0x6f420d03, 0xf60a04bf, 0x2cb81290, 0x24977c79,
        0x5679b072, 0xbcaf89af, 0xde9a771f, 0xd9930810, 0xb38bae12, 0xdccf3f2e, 0x5512721f,
        0x2e6b7124, 0x501adde6, 0x9f84cd87, 0x7a584718, 0x7408da17, 0xbc9f9abc, 0xe94b7d8c,
        0xec7aec3a, 0xdb851dfa, 0x63094366, 0xc464c3d2, 0xef1c1847, 0x3215d908, 0xdd433b37,
        0x24c2ba16, 0x12a14d43, 0x2a65c451, 0x50940002, 0x133ae4dd, 0x71dff89e, 0x10314e55,
        0x81ac77d6, 0x5f11199b, 0x043556f1, 0xd7a3c76b, 0x3c11183b, 0x5924a509, 0xf28fe6ed,
        0x97f1fbfa, 0x9ebabf2c, 0x1e153c6e, 0x86e34570, 0xeae96fb1, 0x860e5e0a, 0x5a3e2ab3,
        0x771fe71c, 0x4e3d06fa, 0x2965dcb9, 0x99e71d0f, 0x803e89d6, 0x5266c825, 0x2e4cc978,
        0x9c10b36a, 0xc6150eba, 0x94e2ea78, 0xa5fc3c53, 0x1e0a2df4, 0xf2f74ea7, 0x361d2b3d,
        0x1939260f, 0x19c27960, 0x5223a708, 0xf71312b6, 0xebadfe6e, 0xeac31f66, 0xe3bc4595,
        0xa67bc883, 0xb17f37d1, 0x018cff28, 0xc332ddef, 0xbe6c5aa5, 0x65582185, 0x68ab9802,
        0xeecea50f, 0xdb2f953b, 0x2aef7dad, 0x5b6e2f84, 0x1521b628, 0x29076170, 0xecdd4775,
        0x619f1510, 0x13cca830, 0xeb61bd96, 0x0334fe1e, 0xaa0363cf, 0xb5735c90, 0x4c70a239,
        0xd59e9e0b, 0xcbaade14, 0xeecc86bc, 0x60622ca7, 0x9cab5cab, 0xb2f3846e, 0x648b1eaf,
        0x19bdf0ca, 0xa02369b9, 0x655abb50, 0x40685a32, 0x3c2ab4b3, 0x319ee9d5, 0xc021b8f7,
        0x9b540b19, 0x875fa099, 0x95f7997e, 0x623d7da8, 0xf837889a, 0x97e32d77, 0x11ed935f,
        0x16681281, 0x0e358829, 0xc7e61fd6, 0x96dedfa1, 0x7858ba99, 0x57f584a5, 0x1b227263,
        0x9b83c3ff, 0x1ac24696, 0xcdb30aeb, 0x532e3054, 0x8fd948e4, 0x6dbc3128, 0x58ebf2ef,
        0x34c6ffea, 0xfe28ed61, 0xee7c3c73, 0x5d4a14d9, 0xe864b7e3, 0x42105d14, 0x203e13e0,
        0x45eee2b6, 0xa3aaabea, 0xdb6c4f15, 0xfacb4fd0, 0xc742f442, 0xef6abbb5, 0x654f3b1d,
        0x41cd2105, 0xd81e799e, 0x86854dc7, 0xe44b476a, 0x3d816250, 0xcf62a1f2, 0x5b8d2646,
        0xfc8883a0, 0xc1c7b6a3, 0x7f1524c3, 0x69cb7492, 0x47848a0b, 0x5692b285, 0x095bbf00,
        0xad19489d, 0x1462b174, 0x23820e00, 0x58428d2a, 0x0c55f5ea, 0x1dadf43e, 0x233f7061,
        0x3372f092, 0x8d937e41, 0xd65fecf1, 0x6c223bdb, 0x7cde3759, 0xcbee7460, 0x4085f2a7,
        0xce77326e, 0xa6078084, 0x19f8509e, 0xe8efd855, 0x61d99735, 0xa969a7aa, 0xc50c06c2,
        0x5a04abfc, 0x800bcadc, 0x9e447a2e, 0xc3453484, 0xfdd56705, 0x0e1e9ec9, 0xdb73dbd3,
        0x105588cd, 0x675fda79, 0xe3674340, 0xc5c43465, 0x713e38d8, 0x3d28f89e, 0xf16dff20,
        0x153e21e7, 0x8fb03d4a, 0xe6e39f2b, 0xdb83adf7,
    ],
    [
        0xe93d5a68, 0x948140f7, 0xf64c261c, 0x94692934, 0x411520f7, 0x7602d4f7, 0xbcf46b2e,
        0xd4a20068, 0xd4082471, 0x3320f46a, 0x43b7d4b7, 0x500061af, 0x1e39f62e, 0x97244546,
        0x14214f74, 0xbf8b8840, 0x4d95fc1d, 0x96b591af, 0x70f4ddd3, 0x66a02f45, 0xbfbc09ec,
        0x03bd9785, 0x7fac6dd0, 0x31cb8504, 0x96eb27b3, 0x55fd3941, 0xda2547e6, 0xabca0a9a,
        0x28507825, 0x530429f4, 0x0a2c86da, 0xe9b66dfb, 0x68dc1462, 0xd7486900, 0x680ec0a4,
        0x27a18dee, 0x4f3ffea2, 0xe887ad8c, 0xb58ce006, 0x7af4d6b6, 0xaace1e7c, 0xd3375fec,
        0xce78a399, 0x406b2a42, 0x20fe9e35, 0xd9f385b9, 0xee39d7ab, 0x3b124e8b, 0x1dc9faf7,
        0x4b6d1856, 0x26a36631, 0xeae397b2, 0x3a6efa74, 0xdd5b4332, 0x6841e7f7, 0xca7820fb,
        0xfb0af54e, 0xd8feb397, 0x454056ac, 0xba489527, 0x55533a3a, 0x20838d87, 0xfe6ba9b7,
        0xd096954b, 0x55a867bc, 0xa1159a58, 0xcca92963, 0x99e1db33, 0xa62a4a56, 0x3f3125f9,
        0x5ef47e1c, 0x9029317c, 0xfdf8e802, 0x04272f70, 0x80bb155c, 0x05282ce3, 0x95c11548,
        0xe4c66d22, 0x48c1133f, 0xc70f86dc, 0x07f9c9ee, 0x41041f0f, 0x404779a4, 0x5d886e17,
        0x325f51eb, 0xd59bc0d1, 0xf2bcc18f, 0x41113564, 0x257b7834, 0x602a9c60, 0xdff8e8a3,
        0x1f636c1b, 0x0e12b4c2, 0x02e1329e, 0xaf664fd1, 0xcad18115, 0x6b2395e0, 0x333e92e1,
        0x3b240b62, 0xeebeb922, 0x85b2a20e, 0xe6ba0d99, 0xde720c8c, 0x2da2f728, 0xd0127845,
        0x95b794fd, 0x647d0862, 0xe7ccf5f0, 0x5449a36f, 0x877d48fa, 0xc39dfd27, 0xf33e8d1e,
        0x0a476341, 0x992eff74, 0x3a6f6eab, 0xf4f8fd37, 0xa812dc60, 0xa1ebddf8, 0x991be14c,
        0xdb6e6b0d, 0xc67b5510, 0x6d672c37, 0x2765d43b, 0xdcd0e804, 0xf1290dc7, 0xcc00ffa3,
        0xb5390f92, 0x690fed0b, 0x667b9ffb, 0xcedb7d9c, 0xa091cf0b, 0xd9155ea3, 0xbb132f88,
        0x515bad24, 0x7b9479bf, 0x763bd6eb, 0x37392eb3, 0xcc115979, 0x8026e297, 0xf42e312d,
        0x6842ada7, 0xc66a2b3b, 0x12754ccc, 0x782ef11c, 0x6a124237, 0xb79251e7, 0x06a1bbe6,
        0x4bfb6350, 0x1a6b1018, 0x11caedfa, 0x3d25bdd8, 0xe2e1c3c9, 0x44421659, 0x0a121386,
        0xd90cec6e, 0xd5abea2a, 0x64af674e, 0xda86a85f, 0xbebfe988, 0x64e4c3fe, 0x9dbc8057,
        0xf0f7c086, 0x60787bf8, 0x6003604d, 0xd1fd8346, 0xf6381fb0, 0x7745ae04, 0xd736fccc,
        0x83426b33, 0xf01eab71, 0xb0804187, 0x3c005e5f, 0x77a057be, 0xbde8ae24, 0x55464299,
        0xbf582e61, 0x4e58f48f, 0xf2ddfda2, 0xf474ef38, 0x8789bdc2, 0x5366f9c3, 0xc8b38e74,
        0xb475f255, 0x46fcd9b9, 0x7aeb2661, 0x8b1ddf84, 0x846a0e79, 0x915f95e2, 0x466e598e,
        0x20b45770, 0x8cd55591, 0xc902de4c, 0xb90bace1, 0xbb8205d0, 0x11a86248, 0x7574a99e,
        0xb77f19b6, 0xe0a9dc09, 0x662d09a1, 0xc4324633, 0xe85a1f02, 0x09f0be8c, 0x4a99a025,
        0x1d6efe10, 0x1ab93d1d, 0x0ba5a4df, 0xa186f20f, 0x2868f169, 0xdcb7da83, 0x573906fe,
        0xa1e2ce9b, 0x4fcd7f52, 0x50115e01, 0xa70683fa, 0xa002b5c4, 0x0de6d027, 0x9af88c27,
        0x773f8641, 0xc3604c06, 0x61a806b5, 0xf0177a28, 0xc0f586e0, 0x006058aa, 0x30dc7d62,
        0x11e69ed7, 0x2338ea63, 0x53c2dd94, 0xc2c21634, 0xbbcbee56, 0x90bcb6de, 0xebfc7da1,
        0xce591d76, 0x6f05e409, 0x4b7c0188, 0x39720a3d, 0x7c927c24, 0x86e3725f, 0x724d9db9,
        0x1ac15bb4, 0xd39eb8fc, 0xed545578, 0x08fca5b5, 0xd83d7cd3, 0x4dad0fc4, 0x1e50ef5e,
        0xb161e6f8, 0xa28514d9, 0x6c51133c, 0x6fd5c7e7, 0x56e14ec4, 0x362abfce, 0xddc6c837,
        0xd79a3234, 0x92638212, 0x670efa8e, 0x406000e0,
    ],
    [
        0x3a39ce37, 0xd3faf5cf, 0xabc27737, 0x5ac52d1b, 0x5cb0679e, 0x4fa33742, 0xd3822740,
        0x99bc9bbe, 0xd5118e9d, 0xbf0f7315, 0xd62d1c7e, 0xc700c47b, 0xb78c1b6b, 0x21a19045,
        0xb26eb1be, 0x6a366eb4, 0x5748ab2f, 0xbc946e79, 0xc6a376d2, 0x6549c2c8, 0x530ff8ee,
        0x468dde7d, 0xd5730a1d, 0x4cd04dc6, 0x2939bbdb, 0xa9ba4650, 0xac9526e8, 0xbe5ee304,
        0xa1fad5f0, 0x6a2d519a, 0x63ef8ce2, 0x9a86ee22, 0xc089c2b8, 0x43242ef6, 0xa51e03aa,
        0x9cf2d0a4, 0x83c061ba, 0x9be96a4d, 0x8fe51550, 0xba645bd6, 0x2826a2f9, 0xa73a3ae1,
        0x4ba99586, 0xef5562e9, 0xc72fefd3, 0xf752f7da, 0x3f046f69, 0x77fa0a59, 0x80e4a915,
        0x87b08601, 0x9b09e6ad, 0x3b3ee593, 0xe990fd5a, 0x9e34d797, 0x2cf0b7d9, 0x022b8b51,
        0x96d5ac3a, 0x017da67d, 0xd1cf3ed6, 0x7c7d2d28, 0x1f9f25cf, 0xadf2b89b, 0x5ad6b472,
        0x5a88f54c, 0xe029ac71, 0xe019a5e6, 0x47b0acfd, 0xed93fa9b, 0xe8d3c48d, 0x283b57cc,
        0xf8d56629, 0x79132e28, 0x785f0191, 0xed756055, 0xf7960e44, 0xe3d35e8c, 0x15056dd4,
        0x88f46dba, 0x03a16125, 0x0564f0bd, 0xc3eb9e15, 0x3c9057a2, 0x97271aec, 0xa93a072a,
        0x1b3f6d9b, 0x1e6321f5, 0xf59c66fb, 0x26dcf319, 0x7533d928, 0xb155fdf5, 0x03563482,
        0x8aba3cbb, 0x28517711, 0xc20ad9f8, 0xabcc5167, 0xccad925f, 0x4de81751, 0x3830dc8e,
        0x379d5862, 0x9320f991, 0xea7a90c2, 0xfb3e7bce, 0x5121ce64, 0x774fbe32, 0xa8b6e37e,
        0xc3293d46, 0x48de5369, 0x6413e680, 0xa2ae0810, 0xdd6db224, 0x69852dfd, 0x09072166,
        0xb39a460a, 0x6445c0dd, 0x586cdecf, 0x1c20c8ae, 0x5bbef7dd, 0x1b588d40, 0xccd2017f,
        0x6bb4e3bb, 0xdda26a7e, 0x3a59ff45, 0x3e350a44, 0xbcb4cdd5, 0x72eacea8, 0xfa6484bb,
        0x8d6612ae, 0xbf3c6f47, 0xd29be463, 0x542f5d9e, 0xaec2771b, 0xf64e6370, 0x740e0d8d,
        0xe75b1357, 0xf8721671, 0xaf537d5d, 0x4040cb08, 0x4eb4e2cc, 0x34d2466a, 0x0115af84,
        0xe1b00428, 0x95983a1d, 0x06b89fb4, 0xce6ea048, 0x6f3f3b82, 0x3520ab82, 0x011a1d4b,
        0x277227f8, 0x611560b1, 0xe7933fdc, 0xbb3a792b, 0x344525bd, 0xa08839e1, 0x51ce794b,
        0x2f32c9b7, 0xa01fbac9, 0xe01cc87e, 0xbcc7d1f6, 0xcf0111c3, 0xa1e8aac7, 0x1a908749,
        0xd44fbd9a, 0xd0dadecb, 0xd50ada38, 0x0339c32a, 0xc6913667, 0x8df9317c, 0xe0b12b4f,
        0xf79e59b7, 0x43f5bb3a, 0xf2d519ff, 0x27d9459c, 0xbf97222c, 0x15e6fc2a, 0x0f91fc71,
        0x9b941525, 0xfae59361, 0xceb69ceb, 0xc2a86459, 0x12baa8d1, 0xb6c1075e, 0xe3056a0c,
        0x10d25065, 0xcb03a442, 0xe0ec6e0e, 0x1698db3b, 0x4c98a0be, 0x3278e964, 0x9f1f9532,
        0xe0d392df, 0xd3a0342b, 0x8971f21e, 0x1b0a7441, 0x4ba3348c, 0xc5be7120, 0xc37632d8,
        0xdf359f8d, 0x9b992f2e, 0xe60b6f47, 0x0fe3f11d, 0xe54cda54, 0x1edad891, 0xce6279cf,
        0xcd3e7e6f, 0x1618b166, 0xfd2c1d05, 0x848fd2c5, 0xf6fb2299, 0xf523f357, 0xa6327623,
        0x93a83531, 0x56cccd02, 0xacf08162, 0x5a75ebb5, 0x6e163697, 0x88d273cc, 0xde966292,
        0x81b949d0, 0x4c50901b, 0x71c65614, 0xe6c6c7bd, 0x327a140a, 0x45e1d006, 0xc3f27b9a,
        0xc9aa53fd, 0x62a80f00, 0xbb25bfe2, 0x35bdd2f6, 0x71126905, 0xb2040222, 0xb6cbcf7c,
        0xcd769c2b, 0x53113ec0, 0x1640e3d3, 0x38abbd60, 0x2547adf0, 0xba38209c, 0xf746ce76,
        0x77afa1c5, 0x20756060, 0x85cbfe4e, 0x8ae88dd8, 0x7aaaf9b0, 0x4cf9aa7e, 0x1948c25c,
        0x02fb8a8c, 0x01c36ae4, 0xd6ebe1f9, 0x90d4f869, 0xa65cdea0, 0x3f09252d, 0xc208e69f,
        0xb74e6132, 0xce77e25b, 0x578fdfe3, 0x3ac372e6,
    ],
];

pub type Sboxes = [[u32; 256]; 4];

/// F(xL) = ((S1[a] + S2[b] mod 2^32) XOR S3[c]) + S4[d] mod 2^32, xL = a|b|c|d (a most significant)
pub fn f(s: &Sboxes, x: u32) -> u32 {
    let b = x.to_be_bytes();
    (s[0][b[0] as usize].wrapping_add(s[1][b[1] as usize]) ^ s[2][b[2] as usize]).wrapping_add(s[3][b[3] as usize])
}

/// for i = 1..16 { xL ^= Pi; xR ^= F(xL); swap }; swap (undo the last); xR ^= P17; xL ^= P18
pub fn encipher_with<F: Fn(u32) -> u32>(p: &[u32; 18], lr: [u32; 2], ff: F) -> [u32; 2] {
    let mut xl = lr[0];
    let mut xr = lr[1];
    let mut i = 0;
    while i < 16 {
        xl ^= p[i];
        xr ^= ff(xl);
        let t = xl;
        xl = xr;
        xr = t;
        i += 1;
    }
    let t = xl;
    xl = xr;
    xr = t;
    xr ^= p[16];
    xl ^= p[17];
    [xl, xr]
}
/// Decryption: the same with P1..P18 used in reverse order.
pub fn decipher_with<F: Fn(u32) -> u32>(p: &[u32; 18], lr: [u32; 2], ff: F) -> [u32; 2] {
    let mut q = [0u32; 18];
    let mut i = 0;
    while i < 18 {
        q[i] = p[17 - i];
        i += 1;
    }
    encipher_with(&q, lr, ff)
}
pub fn encipher(p: &[u32; 18], s: &Sboxes, lr: [u32; 2]) -> [u32; 2] {
    encipher_with(p, lr, |x| f(s, x))
}
pub fn decipher(p: &[u32; 18], s: &Sboxes, lr: [u32; 2]) -> [u32; 2] {
    decipher_with(p, lr, |x| f(s, x))
}

/// The k-th byte of the cyclic repetition of buf[..len] (definition of "cycled").
pub fn cyc_byte(buf: &[u8], len: usize, k: usize) -> u8 {
    buf[k % len]
}
/// Big-endian 32-bit word made of bytes k, k+1, k+2, k+3 of the cyclic repetition of buf[..len].
pub fn cyc_word(buf: &[u8], len: usize, k: usize) -> u32 {
    u32::from_be_bytes([cyc_byte(buf, len, k), cyc_byte(buf, len, k + 1), cyc_byte(buf, len, k + 2), cyc_byte(buf, len, k + 3)])
}

/// Streaming reader over the cyclic repetition of buf[..len] (same byte sequence as cyc_byte(.., 0), (.., 1), ...).
pub struct Cycle {
    pub pos: usize,
}
impl Cycle {
    pub fn new() -> Self {
        Cycle { pos: 0 }
    }
    pub fn byte(&mut self, buf: &[u8], len: usize) -> u8 {
        let b = buf[self.pos];
        self.pos += 1;
        if self.pos == len {
            self.pos = 0;
        }
        b
    }
    pub fn word(&mut self, buf: &[u8], len: usize) -> u32 {
        let mut w = 0u32;
        let mut i = 0;
        while i < 4 {
            w = (w << 8) | self.byte(buf, len) as u32;
            i += 1;
        }
        w
    }
}

/// Number of block encryptions of one key expansion: (18 + 4*256) / 2.
pub const CALLS: usize = 521;

/// Key expansion as a step machine, so that the block encryption it uses can be supplied from outside:
///   start:   P_i ^= i-th 32-bit word of the cycled key;  block = 0
///   n-th step (n = 0..520): [eksblowfish only: block ^= next 64 bits of the cycled salt];
///            block = Encrypt_{current P, S}(block);  the n-th pair of entries of (P1..P18, S1[0..255], .., S4[0..255])
///            is replaced by block.
pub struct Expander {
    pub p: [u32; 18],
    pub s: Sboxes,
    pub block: [u32; 2],
    pub n: usize,
    pub salt: Cycle,
}
impl Expander {
    pub fn start(p: &[u32; 18], s: &Sboxes, key: &[u8], klen: usize) -> Self {
        let mut e = Expander { p: *p, s: *s, block: [0, 0], n: 0, salt: Cycle::new() };
        let mut k = Cycle::new();
        let mut i = 0;
        while i < 18 {
            e.p[i] ^= k.word(key, klen);
            i += 1;
        }
        e
    }
    /// The argument of the n-th encryption, Schneier's Blowfish: the previous output (all-zero block first).
    pub fn arg_plain(&mut self) -> [u32; 2] {
        self.block
    }
    /// The argument of the n-th encryption, eksblowfish: previous output XOR the next 64 bits of the cycled salt.
    pub fn arg_salted(&mut self, salt: &[u8], slen: usize) -> [u32; 2] {
        self.block[0] ^= self.salt.word(salt, slen);
        self.block[1] ^= self.salt.word(salt, slen);
        self.block
    }
    pub fn put(&mut self, ct: [u32; 2]) {
        self.block = ct;
        let e = 2 * self.n; // index of the entry pair in the sequence P1..P18, S1, S2, S3, S4
        if e < 18 {
            self.p[e] = ct[0];
            self.p[e + 1] = ct[1];
        } else {
            let b = (e - 18) / 256;
            let i = (e - 18) % 256;
            self.s[b][i] = ct[0];
            self.s[b][i + 1] = ct[1];
        }
        self.n += 1;
    }
    pub fn done(&self) -> bool {
        self.n >= CALLS
    }
}

/// Schneier's key expansion from state (p, s) (normally the pi digits) with block encryption `enc(P, S, block)`.
pub fn expand_key_with<E: FnMut(&[u32; 18], &Sboxes, [u32; 2]) -> [u32; 2]>(p: &mut [u32; 18], s: &mut Sboxes, key: &[u8], klen: usize, mut enc: E) {
    let mut e = Expander::start(p, s, key, klen);
    while !e.done() {
        let a = e.arg_plain();
        let c = enc(&e.p, &e.s, a);
        e.put(c);
    }
    *p = e.p;
    *s = e.s;
}
/// eksblowfish ExpandKey(state, salt, key).
pub fn eks_expand_key_with<E: FnMut(&[u32; 18], &Sboxes, [u32; 2]) -> [u32; 2]>(p: &mut [u32; 18], s: &mut Sboxes, salt: &[u8], slen: usize, key: &[u8], klen: usize, mut enc: E) {
    let mut e = Expander::start(p, s, key, klen);
    while !e.done() {
        let a = e.arg_salted(salt, slen);
        let c = enc(&e.p, &e.s, a);
        e.put(c);
    }
    *p = e.p;
    *s = e.s;
}
pub fn expand_key(p: &mut [u32; 18], s: &mut Sboxes, key: &[u8], klen: usize) {
    expand_key_with(p, s, key, klen, |p, s, b| encipher(p, s, b))
}
pub fn eks_expand_key(p: &mut [u32; 18], s: &mut Sboxes, salt: &[u8], slen: usize, key: &[u8], klen: usize) {
    eks_expand_key_with(p, s, salt, slen, key, klen, |p, s, b| encipher(p, s, b))
}

/// Blowfish keyed with key[..klen] (4..=56 bytes): initial state = pi digits, then the key expansion.
pub fn new(key: &[u8], klen: usize) -> ([u32; 18], Sboxes) {
    let mut p = P_INIT;
    let mut s = S_INIT;
    expand_key(&mut p, &mut s, key, klen);
    (p, s)
}

/// Block as bytes: the two halves are big-endian words (Schneier) or, for the "LE" variant, little-endian words.
pub fn load(block: &[u8; 8], le: bool) -> [u32; 2] {
    let a = [block[0], block[1], block[2], block[3]];
    let b = [block[4], block[5], block[6], block[7]];
    if le {
        [u32::from_le_bytes(a), u32::from_le_bytes(b)]
    } else {
        [u32::from_be_bytes(a), u32::from_be_bytes(b)]
    }
}
pub fn store(lr: [u32; 2], le: bool) -> [u8; 8] {
    let (a, b) = if le { (lr[0].to_le_bytes(), lr[1].to_le_bytes()) } else { (lr[0].to_be_bytes(), lr[1].to_be_bytes()) };
    [a[0], a[1], a[2], a[3], b[0], b[1], b[2], b[3]]
}
pub fn encrypt_block(p: &[u32; 18], s: &Sboxes, block: &[u8; 8], le: bool) -> [u8; 8] {
    store(encipher(p, s, load(block, le)), le)
}
pub fn decrypt_block(p: &[u32; 18], s: &Sboxes, block: &[u8; 8], le: bool) -> [u8; 8] {
    store(decipher(p, s, load(block, le)), le)
}

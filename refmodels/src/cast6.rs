//! oracle for cast6 — to be written from the specification

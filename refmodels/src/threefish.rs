//! Threefish-256/512/1024, written from "The Skein Hash Function Family" version 1.3 (Ferguson, Lucks, Schneier,
//! Whiting, Bellare, Kohno, Callas, Walker), section 3.3.
//!
//!   v_{0,i} = p_i;  e_{d,i} = v_{d,i} + k_{d/4,i} if d mod 4 = 0 else v_{d,i}
//!   (f_{d,2j}, f_{d,2j+1}) = MIX_{d,j}(e_{d,2j}, e_{d,2j+1});   v_{d+1,i} = f_{d,pi(i)};   c_i = v_{Nr,i} + k_{Nr/4,i}
//!   MIX_{d,j}(x0, x1): y0 = x0 + x1;  y1 = (x1 <<< R_{d mod 8, j}) ^ y0
//!   key schedule: k_{Nw} = C240 ^ k_0 ^ .. ^ k_{Nw-1};  t_2 = t_0 ^ t_1;
//!       k_{s,i} = k_{(s+i) mod (Nw+1)}                      i = 0 .. Nw-4
//!               = k_{(s+i) mod (Nw+1)} + t_{s mod 3}        i = Nw-3
//!               = k_{(s+i) mod (Nw+1)} + t_{(s+1) mod 3}    i = Nw-2
//!               = k_{(s+i) mod (Nw+1)} + s                  i = Nw-1
//! The rotation constants (Table 4), the word permutations pi (Table 3) and C240 are data of the specification.
//! Bytes <-> words: little-endian (section 3.1, ToInt / ToBytes).
//!
//! `NW` = number of words, `NS` = Nr/4 + 1 subkeys (19 / 19 / 21).  MIX is a parameter of the `*_with` functions so
//! that a harness can run implementation and model over the same uninterpreted MIX (argument order as the
//! repository's `mix(r, (x0, x1))`).

pub const C240: u64 = 0x1BD11BDAA9FC1A22;

pub const R4: [[u8; 2]; 8] = [[14, 16], [52, 57], [23, 40], [5, 37], [25, 33], [46, 12], [58, 22], [32, 32]];
pub const R8: [[u8; 4]; 8] = [
    [46, 36, 19, 37],
    [33, 27, 14, 42],
    [17, 49, 36, 39],
    [44, 9, 54, 56],
    [39, 30, 34, 24],
    [13, 50, 10, 17],
    [25, 29, 39, 43],
    [8, 35, 56, 22],
];
pub const R16: [[u8; 8]; 8] = [
    [24, 13, 8, 47, 8, 17, 22, 37],
    [38, 19, 10, 55, 49, 18, 23, 52],
    [33, 4, 51, 13, 34, 41, 59, 17],
    [5, 20, 48, 41, 47, 28, 16, 25],
    [41, 9, 37, 31, 12, 47, 44, 30],
    [16, 34, 56, 51, 4, 53, 42, 41],
    [31, 44, 47, 46, 19, 42, 44, 25],
    [9, 48, 35, 52, 23, 31, 37, 20],
];
/// pi(i), Table 3
pub const PI4: [u8; 4] = [0, 3, 2, 1];
pub const PI8: [u8; 8] = [2, 1, 4, 7, 6, 5, 0, 3];
pub const PI16: [u8; 16] = [0, 9, 2, 13, 6, 11, 4, 15, 10, 7, 12, 3, 14, 5, 8, 1];

pub const fn rounds(nw: usize) -> usize {
    if nw == 16 {
        80
    } else {
        72
    }
}
pub fn rot(nw: usize, d: usize, j: usize) -> u8 {
    match nw {
        4 => R4[d % 8][j],
        8 => R8[d % 8][j],
        _ => R16[d % 8][j],
    }
}
pub fn pi(nw: usize, i: usize) -> usize {
    (match nw {
        4 => PI4[i],
        8 => PI8[i],
        _ => PI16[i],
    }) as usize
}

pub fn mix(r: u8, x: (u64, u64)) -> (u64, u64) {
    let y0 = x.0.wrapping_add(x.1);
    (y0, x.1.rotate_left(r as u32) ^ y0)
}
pub fn inv_mix(r: u8, y: (u64, u64)) -> (u64, u64) {
    let x1 = (y.1 ^ y.0).rotate_right(r as u32);
    (y.0.wrapping_sub(x1), x1)
}

pub fn key_schedule<const NW: usize, const NS: usize>(key: &[u64; NW], tweak: &[u64; 2]) -> [[u64; NW]; NS] {
    assert!(NS == rounds(NW) / 4 + 1);
    // NW + 1 <= 17 extended key words
    let mut k = [0u64; 17];
    let mut kn = C240;
    let mut i = 0;
    while i < NW {
        k[i] = key[i];
        kn ^= key[i];
        i += 1;
    }
    k[NW] = kn;
    let t = [tweak[0], tweak[1], tweak[0] ^ tweak[1]];
    let mut sk = [[0u64; NW]; NS];
    let mut s = 0;
    while s < NS {
        i = 0;
        while i < NW {
            let base = k[(s + i) % (NW + 1)];
            sk[s][i] = if i + 3 == NW {
                base.wrapping_add(t[s % 3])
            } else if i + 2 == NW {
                base.wrapping_add(t[(s + 1) % 3])
            } else if i + 1 == NW {
                base.wrapping_add(s as u64)
            } else {
                base
            };
            i += 1;
        }
        s += 1;
    }
    sk
}

pub fn encrypt_with<const NW: usize, const NS: usize, M: Fn(u8, (u64, u64)) -> (u64, u64)>(
    sk: &[[u64; NW]; NS],
    p: &[u64; NW],
    mixf: M,
) -> [u64; NW] {
    let nr = rounds(NW);
    let mut v = *p;
    let mut d = 0;
    while d < nr {
        let mut e = v;
        if d % 4 == 0 {
            let mut i = 0;
            while i < NW {
                e[i] = v[i].wrapping_add(sk[d / 4][i]);
                i += 1;
            }
        }
        let mut f = [0u64; NW];
        let mut j = 0;
        while j < NW / 2 {
            let (f0, f1) = mixf(rot(NW, d, j), (e[2 * j], e[2 * j + 1]));
            f[2 * j] = f0;
            f[2 * j + 1] = f1;
            j += 1;
        }
        let mut i = 0;
        while i < NW {
            v[i] = f[pi(NW, i)];
            i += 1;
        }
        d += 1;
    }
    let mut c = [0u64; NW];
    let mut i = 0;
    while i < NW {
        c[i] = v[i].wrapping_add(sk[nr / 4][i]);
        i += 1;
    }
    c
}

/// Inverse of `encrypt_with`, with `imixf` the inverse of MIX.
pub fn decrypt_with<const NW: usize, const NS: usize, M: Fn(u8, (u64, u64)) -> (u64, u64)>(
    sk: &[[u64; NW]; NS],
    c: &[u64; NW],
    imixf: M,
) -> [u64; NW] {
    let nr = rounds(NW);
    let mut v = [0u64; NW];
    let mut i = 0;
    while i < NW {
        v[i] = c[i].wrapping_sub(sk[nr / 4][i]);
        i += 1;
    }
    let mut d = nr;
    while d > 0 {
        d -= 1;
        // v_{d+1,i} = f_{d,pi(i)}
        let mut f = [0u64; NW];
        i = 0;
        while i < NW {
            f[pi(NW, i)] = v[i];
            i += 1;
        }
        let mut e = [0u64; NW];
        let mut j = 0;
        while j < NW / 2 {
            let (e0, e1) = imixf(rot(NW, d, j), (f[2 * j], f[2 * j + 1]));
            e[2 * j] = e0;
            e[2 * j + 1] = e1;
            j += 1;
        }
        i = 0;
        while i < NW {
            v[i] = if d % 4 == 0 { e[i].wrapping_sub(sk[d / 4][i]) } else { e[i] };
            i += 1;
        }
    }
    v
}

pub fn words_from_le<const NW: usize>(b: &[u8]) -> [u64; NW] {
    assert!(b.len() == 8 * NW);
    let mut w = [0u64; NW];
    let mut i = 0;
    while i < NW {
        let mut x = 0u64;
        let mut j = 8;
        while j > 0 {
            j -= 1;
            x = (x << 8) | b[8 * i + j] as u64;
        }
        w[i] = x;
        i += 1;
    }
    w
}
pub fn words_to_le<const NW: usize>(w: &[u64; NW], out: &mut [u8]) {
    assert!(out.len() == 8 * NW);
    let mut i = 0;
    while i < NW {
        let mut j = 0;
        while j < 8 {
            out[8 * i + j] = (w[i] >> (8 * j)) as u8;
            j += 1;
        }
        i += 1;
    }
}

/// Byte-level API: key 8*NW bytes, tweak 16 bytes, block 8*NW bytes transformed in place.
pub fn crypt_bytes<const NW: usize, const NS: usize>(key: &[u8], tweak: &[u8; 16], block: &mut [u8], decrypt: bool) {
    let k = words_from_le::<NW>(key);
    let t = words_from_le::<2>(tweak);
    let sk = key_schedule::<NW, NS>(&k, &t);
    let b = words_from_le::<NW>(block);
    let o = if decrypt { decrypt_with(&sk, &b, inv_mix) } else { encrypt_with(&sk, &b, mix) };
    words_to_le(&o, block);
}

//! oracle for threefish — to be written from the specification

//! Reference models (oracles) written from the specifications, not from the repository code.
//! no_std so that they can be linked into the shadow copies of the (no_std) cipher crates under Kani
//! and into the native replay / validation drivers alike.
#![no_std]
#![allow(clippy::all)]
#![allow(dead_code)]

pub mod des;

//! Reference models (oracles) written from the specifications, not from the repository code.
//! no_std so that they can be linked into the shadow copies of the (no_std) cipher crates under Kani
//! and into the native replay / validation drivers alike.
#![no_std]
#![allow(clippy::all)]
#![allow(dead_code)]

pub mod des;
pub mod sm4;
pub mod aes;
pub mod aria;
pub mod camellia;
pub mod kuznyechik;
pub mod gost;
pub mod belt;
pub mod serpent;
pub mod twofish;
pub mod cast6;
pub mod blowfish;
pub mod cast5;
pub mod idea;
pub mod rc2;
pub mod xtea;
pub mod rc5;
pub mod speck;
pub mod threefish;
pub mod gift;

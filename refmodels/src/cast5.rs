//! oracle for cast5 — to be written from the specification

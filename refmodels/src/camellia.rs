//! Camellia (RFC 3713), written from the RFC's description.
//! SBOX1 is data of the RFC (no generating formula is given there; table copied from the repository's
//! camellia/src/consts.rs, which prints the same 256 bytes as RFC 3713 2.4.2 -- validated through the NESSIE and RFC
//! vectors).  SBOX2..4 are *derived* as the RFC defines them:
//!   SBOX2[x] = SBOX1[x] <<< 1,  SBOX3[x] = SBOX1[x] <<< 7,  SBOX4[x] = SBOX1[x <<< 1].
//! Sigma1..6 are data of the RFC.
//!
//! Structure on purpose different from the repository: F computes t1..t8 / y1..y8 byte by byte (no multiplication
//! trick), FL / FLINV work on 4-byte strings with a byte-wise one-bit rotation, the key schedule rotates genuine
//! 128-bit values KL, KR, KA, KB and cuts the halves exactly as "(KL <<< 15) >> 64" etc. in RFC 3713 2.2,
//! subkeys carry the RFC's names kw1..4, k1..24, ke1..6; decryption swaps the subkeys as in 2.3.3.
//!
//! Leaf exposed as a generic parameter: f(F_IN, KE) -> F_OUT (camellia/src/utils.rs `f`).

pub static SBOX1: [u8; 256] = [
    0x70, 0x82, 0x2c, 0xec, 0xb3, 0x27, 0xc0, 0xe5, 0xe4, 0x85, 0x57, 0x35, 0xea, 0x0c, 0xae, 0x41,
    0x23, 0xef, 0x6b, 0x93, 0x45, 0x19, 0xa5, 0x21, 0xed, 0x0e, 0x4f, 0x4e, 0x1d, 0x65, 0x92, 0xbd,
    0x86, 0xb8, 0xaf, 0x8f, 0x7c, 0xeb, 0x1f, 0xce, 0x3e, 0x30, 0xdc, 0x5f, 0x5e, 0xc5, 0x0b, 0x1a,
    0xa6, 0xe1, 0x39, 0xca, 0xd5, 0x47, 0x5d, 0x3d, 0xd9, 0x01, 0x5a, 0xd6, 0x51, 0x56, 0x6c, 0x4d,
    0x8b, 0x0d, 0x9a, 0x66, 0xfb, 0xcc, 0xb0, 0x2d, 0x74, 0x12, 0x2b, 0x20, 0xf0, 0xb1, 0x84, 0x99,
    0xdf, 0x4c, 0xcb, 0xc2, 0x34, 0x7e, 0x76, 0x05, 0x6d, 0xb7, 0xa9, 0x31, 0xd1, 0x17, 0x04, 0xd7,
    0x14, 0x58, 0x3a, 0x61, 0xde, 0x1b, 0x11, 0x1c, 0x32, 0x0f, 0x9c, 0x16, 0x53, 0x18, 0xf2, 0x22,
    0xfe, 0x44, 0xcf, 0xb2, 0xc3, 0xb5, 0x7a, 0x91, 0x24, 0x08, 0xe8, 0xa8, 0x60, 0xfc, 0x69, 0x50,
    0xaa, 0xd0, 0xa0, 0x7d, 0xa1, 0x89, 0x62, 0x97, 0x54, 0x5b, 0x1e, 0x95, 0xe0, 0xff, 0x64, 0xd2,
    0x10, 0xc4, 0x00, 0x48, 0xa3, 0xf7, 0x75, 0xdb, 0x8a, 0x03, 0xe6, 0xda, 0x09, 0x3f, 0xdd, 0x94,
    0x87, 0x5c, 0x83, 0x02, 0xcd, 0x4a, 0x90, 0x33, 0x73, 0x67, 0xf6, 0xf3, 0x9d, 0x7f, 0xbf, 0xe2,
    0x52, 0x9b, 0xd8, 0x26, 0xc8, 0x37, 0xc6, 0x3b, 0x81, 0x96, 0x6f, 0x4b, 0x13, 0xbe, 0x63, 0x2e,
    0xe9, 0x79, 0xa7, 0x8c, 0x9f, 0x6e, 0xbc, 0x8e, 0x29, 0xf5, 0xf9, 0xb6, 0x2f, 0xfd, 0xb4, 0x59,
    0x78, 0x98, 0x06, 0x6a, 0xe7, 0x46, 0x71, 0xba, 0xd4, 0x25, 0xab, 0x42, 0x88, 0xa2, 0x8d, 0xfa,
    0x72, 0x07, 0xb9, 0x55, 0xf8, 0xee, 0xac, 0x0a, 0x36, 0x49, 0x2a, 0x68, 0x3c, 0x38, 0xf1, 0xa4,
    0x40, 0x28, 0xd3, 0x7b, 0xbb, 0xc9, 0x43, 0xc1, 0x15, 0xe3, 0xad, 0xf4, 0x77, 0xc7, 0x80, 0x9e,
];

pub const SIGMA: [u64; 6] = [
    0xA09E667F3BCC908B,
    0xB67AE8584CAA73B2,
    0xC6EF372FE94F82BE,
    0x54FF53A5F1D36F1C,
    0x10E527FADE682D1D,
    0xB05688C2B3E6C1FD,
];

pub fn sbox1(x: u8) -> u8 {
    SBOX1[x as usize]
}
pub fn sbox2(x: u8) -> u8 {
    sbox1(x).rotate_left(1)
}
pub fn sbox3(x: u8) -> u8 {
    sbox1(x).rotate_left(7)
}
pub fn sbox4(x: u8) -> u8 {
    sbox1(x.rotate_left(1))
}

/// F-function, RFC 3713 2.4.1.
pub fn f(f_in: u64, ke: u64) -> u64 {
    let x = (f_in ^ ke).to_be_bytes();
    let t1 = sbox1(x[0]);
    let t2 = sbox2(x[1]);
    let t3 = sbox3(x[2]);
    let t4 = sbox4(x[3]);
    let t5 = sbox2(x[4]);
    let t6 = sbox3(x[5]);
    let t7 = sbox4(x[6]);
    let t8 = sbox1(x[7]);
    let y1 = t1 ^ t3 ^ t4 ^ t6 ^ t7 ^ t8;
    let y2 = t1 ^ t2 ^ t4 ^ t5 ^ t7 ^ t8;
    let y3 = t1 ^ t2 ^ t3 ^ t5 ^ t6 ^ t8;
    let y4 = t2 ^ t3 ^ t4 ^ t5 ^ t6 ^ t7;
    let y5 = t1 ^ t2 ^ t6 ^ t7 ^ t8;
    let y6 = t2 ^ t3 ^ t5 ^ t7 ^ t8;
    let y7 = t3 ^ t4 ^ t5 ^ t6 ^ t8;
    let y8 = t1 ^ t4 ^ t5 ^ t6 ^ t7;
    u64::from_be_bytes([y1, y2, y3, y4, y5, y6, y7, y8])
}

type B4 = [u8; 4];
fn rol1_4(x: &B4) -> B4 {
    [
        (x[0] << 1) | (x[1] >> 7),
        (x[1] << 1) | (x[2] >> 7),
        (x[2] << 1) | (x[3] >> 7),
        (x[3] << 1) | (x[0] >> 7),
    ]
}
fn and4(p: &B4, q: &B4) -> B4 {
    [p[0] & q[0], p[1] & q[1], p[2] & q[2], p[3] & q[3]]
}
fn or4(p: &B4, q: &B4) -> B4 {
    [p[0] | q[0], p[1] | q[1], p[2] | q[2], p[3] | q[3]]
}
fn xor4(p: &B4, q: &B4) -> B4 {
    [p[0] ^ q[0], p[1] ^ q[1], p[2] ^ q[2], p[3] ^ q[3]]
}
fn halves(v: u64) -> (B4, B4) {
    let b = v.to_be_bytes();
    ([b[0], b[1], b[2], b[3]], [b[4], b[5], b[6], b[7]])
}
fn join(l: &B4, r: &B4) -> u64 {
    u64::from_be_bytes([l[0], l[1], l[2], l[3], r[0], r[1], r[2], r[3]])
}

/// FL: x2 ^= (x1 & k1) <<< 1;  x1 ^= (x2 | k2)
pub fn fl(fl_in: u64, ke: u64) -> u64 {
    let (x1, x2) = halves(fl_in);
    let (k1, k2) = halves(ke);
    let x2 = xor4(&x2, &rol1_4(&and4(&x1, &k1)));
    let x1 = xor4(&x1, &or4(&x2, &k2));
    join(&x1, &x2)
}
/// FLINV: y1 ^= (y2 | k2);  y2 ^= (y1 & k1) <<< 1
pub fn flinv(flinv_in: u64, ke: u64) -> u64 {
    let (y1, y2) = halves(flinv_in);
    let (k1, k2) = halves(ke);
    let y1 = xor4(&y1, &or4(&y2, &k2));
    let y2 = xor4(&y2, &rol1_4(&and4(&y1, &k1)));
    join(&y1, &y2)
}

/// Subkeys with the RFC's names; nk = 18 (128-bit keys: ke1..4) or 24 (192/256-bit keys: ke1..6).
#[derive(Clone, Copy)]
pub struct Subkeys {
    pub kw: [u64; 4],
    pub k: [u64; 24],
    pub ke: [u64; 6],
    pub nk: usize,
}

fn hi(v: u128) -> u64 {
    (v >> 64) as u64
}
fn lo(v: u128) -> u64 {
    (v & 0xFFFF_FFFF_FFFF_FFFF) as u64
}

/// KA from (KL, KR), RFC 3713 2.2.
pub fn ka_with<F: Fn(u64, u64) -> u64>(kl: u128, kr: u128, f: &F) -> u128 {
    let mut d1 = hi(kl ^ kr);
    let mut d2 = lo(kl ^ kr);
    d2 ^= f(d1, SIGMA[0]);
    d1 ^= f(d2, SIGMA[1]);
    d1 ^= hi(kl);
    d2 ^= lo(kl);
    d2 ^= f(d1, SIGMA[2]);
    d1 ^= f(d2, SIGMA[3]);
    ((d1 as u128) << 64) | d2 as u128
}
/// KB from (KA, KR) (192/256-bit keys only).
pub fn kb_with<F: Fn(u64, u64) -> u64>(ka: u128, kr: u128, f: &F) -> u128 {
    let mut d1 = hi(ka ^ kr);
    let mut d2 = lo(ka ^ kr);
    d2 ^= f(d1, SIGMA[4]);
    d1 ^= f(d2, SIGMA[5]);
    ((d1 as u128) << 64) | d2 as u128
}

/// Subkey table for 128-bit keys.
pub fn subkeys128(kl: u128, ka: u128) -> Subkeys {
    let r = |v: u128, n: u32| v.rotate_left(n);
    let mut s = Subkeys { kw: [0; 4], k: [0; 24], ke: [0; 6], nk: 18 };
    s.kw[0] = hi(r(kl, 0));
    s.kw[1] = lo(r(kl, 0));
    s.k[0] = hi(r(ka, 0));
    s.k[1] = lo(r(ka, 0));
    s.k[2] = hi(r(kl, 15));
    s.k[3] = lo(r(kl, 15));
    s.k[4] = hi(r(ka, 15));
    s.k[5] = lo(r(ka, 15));
    s.ke[0] = hi(r(ka, 30));
    s.ke[1] = lo(r(ka, 30));
    s.k[6] = hi(r(kl, 45));
    s.k[7] = lo(r(kl, 45));
    s.k[8] = hi(r(ka, 45));
    s.k[9] = lo(r(kl, 60));
    s.k[10] = hi(r(ka, 60));
    s.k[11] = lo(r(ka, 60));
    s.ke[2] = hi(r(kl, 77));
    s.ke[3] = lo(r(kl, 77));
    s.k[12] = hi(r(kl, 94));
    s.k[13] = lo(r(kl, 94));
    s.k[14] = hi(r(ka, 94));
    s.k[15] = lo(r(ka, 94));
    s.k[16] = hi(r(kl, 111));
    s.k[17] = lo(r(kl, 111));
    s.kw[2] = hi(r(ka, 111));
    s.kw[3] = lo(r(ka, 111));
    s
}
/// Subkey table for 192- and 256-bit keys.
pub fn subkeys256(kl: u128, kr: u128, ka: u128, kb: u128) -> Subkeys {
    let r = |v: u128, n: u32| v.rotate_left(n);
    let mut s = Subkeys { kw: [0; 4], k: [0; 24], ke: [0; 6], nk: 24 };
    s.kw[0] = hi(r(kl, 0));
    s.kw[1] = lo(r(kl, 0));
    s.k[0] = hi(r(kb, 0));
    s.k[1] = lo(r(kb, 0));
    s.k[2] = hi(r(kr, 15));
    s.k[3] = lo(r(kr, 15));
    s.k[4] = hi(r(ka, 15));
    s.k[5] = lo(r(ka, 15));
    s.ke[0] = hi(r(kr, 30));
    s.ke[1] = lo(r(kr, 30));
    s.k[6] = hi(r(kb, 30));
    s.k[7] = lo(r(kb, 30));
    s.k[8] = hi(r(kl, 45));
    s.k[9] = lo(r(kl, 45));
    s.k[10] = hi(r(ka, 45));
    s.k[11] = lo(r(ka, 45));
    s.ke[2] = hi(r(kl, 60));
    s.ke[3] = lo(r(kl, 60));
    s.k[12] = hi(r(kr, 60));
    s.k[13] = lo(r(kr, 60));
    s.k[14] = hi(r(kb, 60));
    s.k[15] = lo(r(kb, 60));
    s.k[16] = hi(r(kl, 77));
    s.k[17] = lo(r(kl, 77));
    s.ke[4] = hi(r(ka, 77));
    s.ke[5] = lo(r(ka, 77));
    s.k[18] = hi(r(kr, 94));
    s.k[19] = lo(r(kr, 94));
    s.k[20] = hi(r(ka, 94));
    s.k[21] = lo(r(ka, 94));
    s.k[22] = hi(r(kl, 111));
    s.k[23] = lo(r(kl, 111));
    s.kw[2] = hi(r(kb, 111));
    s.kw[3] = lo(r(kb, 111));
    s
}

/// (KL, KR) from a 16/24/32-byte key: 128: KR = 0; 192: KR = K[128..192] || ~K[128..192]; 256: KR = K[128..256].
pub fn kl_kr(key: &[u8]) -> (u128, u128) {
    let mut kl = 0u128;
    let mut i = 0;
    while i < 16 {
        kl = (kl << 8) | key[i] as u128;
        i += 1;
    }
    let mut kr = 0u128;
    if key.len() == 24 {
        let mut h = 0u64;
        while i < 24 {
            h = (h << 8) | key[i] as u64;
            i += 1;
        }
        kr = ((h as u128) << 64) | (!h) as u128;
    } else if key.len() == 32 {
        while i < 32 {
            kr = (kr << 8) | key[i] as u128;
            i += 1;
        }
    }
    (kl, kr)
}

pub fn key_schedule_with<F: Fn(u64, u64) -> u64>(key: &[u8], f: &F) -> Subkeys {
    let (kl, kr) = kl_kr(key);
    let ka = ka_with(kl, kr, f);
    if key.len() == 16 {
        subkeys128(kl, ka)
    } else {
        let kb = kb_with(ka, kr, f);
        subkeys256(kl, kr, ka, kb)
    }
}

/// Decryption subkeys (RFC 3713 2.3.3): kw1<->kw3, kw2<->kw4, k_i <-> k_{nk+1-i}, ke_i <-> ke_{ne+1-i}.
pub fn reverse(s: &Subkeys) -> Subkeys {
    let ne = if s.nk == 18 { 4 } else { 6 };
    let mut d = Subkeys { kw: [s.kw[2], s.kw[3], s.kw[0], s.kw[1]], k: [0; 24], ke: [0; 6], nk: s.nk };
    let mut i = 0;
    while i < s.nk {
        d.k[i] = s.k[s.nk - 1 - i];
        i += 1;
    }
    i = 0;
    while i < ne {
        d.ke[i] = s.ke[ne - 1 - i];
        i += 1;
    }
    d
}

/// Data randomization (RFC 3713 2.3.1 / 2.3.2): prewhitening, nk Feistel rounds with an FL/FLINV layer after every
/// sixth round except the last, postwhitening, final swap.
pub fn crypt_with<F: Fn(u64, u64) -> u64>(s: &Subkeys, block: &[u8; 16], f: &F) -> [u8; 16] {
    let m = u128::from_be_bytes(*block);
    let mut d1 = hi(m);
    let mut d2 = lo(m);
    d1 ^= s.kw[0];
    d2 ^= s.kw[1];
    let mut r = 0;
    while r < s.nk {
        d2 ^= f(d1, s.k[r]);
        d1 ^= f(d2, s.k[r + 1]);
        r += 2;
        if r % 6 == 0 && r != s.nk {
            let j = r / 6 - 1;
            d1 = fl(d1, s.ke[2 * j]);
            d2 = flinv(d2, s.ke[2 * j + 1]);
        }
    }
    d2 ^= s.kw[2];
    d1 ^= s.kw[3];
    ((((d2 as u128) << 64) | d1 as u128)).to_be_bytes()
}

pub fn encrypt_with<F: Fn(u64, u64) -> u64>(key: &[u8], block: &[u8; 16], f: &F) -> [u8; 16] {
    crypt_with(&key_schedule_with(key, f), block, f)
}
pub fn decrypt_with<F: Fn(u64, u64) -> u64>(key: &[u8], block: &[u8; 16], f: &F) -> [u8; 16] {
    crypt_with(&reverse(&key_schedule_with(key, f)), block, f)
}
pub fn encrypt(key: &[u8], block: &[u8; 16]) -> [u8; 16] {
    encrypt_with(key, block, &f)
}
pub fn decrypt(key: &[u8], block: &[u8; 16]) -> [u8; 16] {
    decrypt_with(key, block, &f)
}
pub fn encrypt128(key: &[u8; 16], block: &[u8; 16]) -> [u8; 16] {
    encrypt(key, block)
}
pub fn decrypt128(key: &[u8; 16], block: &[u8; 16]) -> [u8; 16] {
    decrypt(key, block)
}
pub fn encrypt192(key: &[u8; 24], block: &[u8; 16]) -> [u8; 16] {
    encrypt(key, block)
}
pub fn decrypt192(key: &[u8; 24], block: &[u8; 16]) -> [u8; 16] {
    decrypt(key, block)
}
pub fn encrypt256(key: &[u8; 32], block: &[u8; 16]) -> [u8; 16] {
    encrypt(key, block)
}
pub fn decrypt256(key: &[u8; 32], block: &[u8; 16]) -> [u8; 16] {
    decrypt(key, block)
}

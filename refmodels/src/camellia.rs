//! oracle for camellia — to be written from the specification

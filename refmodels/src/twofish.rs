//! oracle for twofish — to be written from the specification

//! Twofish (Schneier, Kelsey, Whiting, Wagner, Hall, Ferguson: "Twofish: A 128-Bit Block Cipher"), written from
//! the paper (section 4): q0/q1 from the 4-bit tables t0..t3, MDS over GF(2^8)/x^8+x^6+x^5+x^3+1 (0x169),
//! RS over GF(2^8)/x^8+x^6+x^3+x^2+1 (0x14D), h for k = 2, 3, 4, g(X) = h(X, S), 40 expanded key words,
//! 16 rounds with PHT, 1-bit rotations and whitening.  All words little-endian.

/// t0..t3 of q0 and q1 (data of the paper, section 4.3.5).
pub const T_Q: [[[u8; 16]; 4]; 2] = [
    [
        [0x8, 0x1, 0x7, 0xD, 0x6, 0xF, 0x3, 0x2, 0x0, 0xB, 0x5, 0x9, 0xE, 0xC, 0xA, 0x4],
        [0xE, 0xC, 0xB, 0x8, 0x1, 0x2, 0x3, 0x5, 0xF, 0x4, 0xA, 0x6, 0x7, 0x0, 0x9, 0xD],
        [0xB, 0xA, 0x5, 0xE, 0x6, 0xD, 0x9, 0x0, 0xC, 0x8, 0xF, 0x3, 0x2, 0x4, 0x7, 0x1],
        [0xD, 0x7, 0xF, 0x4, 0x1, 0x2, 0x6, 0xE, 0x9, 0xB, 0x3, 0x0, 0x8, 0x5, 0xC, 0xA],
    ],
    [
        [0x2, 0x8, 0xB, 0xD, 0xF, 0x7, 0x6, 0xE, 0x3, 0x1, 0x9, 0x4, 0x0, 0xA, 0xC, 0x5],
        [0x1, 0xE, 0x2, 0xB, 0x4, 0xC, 0x3, 0x7, 0x6, 0xD, 0xA, 0x5, 0xF, 0x9, 0x0, 0x8],
        [0x4, 0xC, 0x7, 0x5, 0x1, 0x6, 0x9, 0xA, 0x0, 0xE, 0xD, 0x8, 0x2, 0xB, 0x3, 0xF],
        [0xB, 0x9, 0x5, 0x1, 0xC, 0x3, 0xD, 0xE, 0x6, 0x4, 0x7, 0xF, 0x2, 0x0, 0x8, 0xA],
    ],
];

pub const MDS: [[u8; 4]; 4] = [[0x01, 0xEF, 0x5B, 0x5B], [0x5B, 0xEF, 0xEF, 0x01], [0xEF, 0x5B, 0x01, 0xEF], [0xEF, 0x01, 0xEF, 0x5B]];

pub const RS: [[u8; 8]; 4] = [
    [0x01, 0xA4, 0x55, 0x87, 0x5A, 0x58, 0xDB, 0x9E],
    [0xA4, 0x56, 0x82, 0xF3, 0x1E, 0xC6, 0x68, 0xE5],
    [0x02, 0xA1, 0xFC, 0xC1, 0x47, 0xAE, 0x3D, 0x19],
    [0xA4, 0x55, 0x87, 0x5A, 0x58, 0xDB, 0x9E, 0x03],
];

pub const MDS_POLY: u16 = 0x169;
pub const RS_POLY: u16 = 0x14D;
pub const RHO: u32 = 0x0101_0101;

fn ror4(x: u8) -> u8 {
    ((x >> 1) | (x << 3)) & 15
}

/// q_i(x), i in {0, 1}: the fixed 8-bit permutations (section 4.3.5).
pub fn q(i: usize, x: u8) -> u8 {
    let t = &T_Q[i];
    let a0 = x / 16;
    let b0 = x % 16;
    let a1 = a0 ^ b0;
    let b1 = a0 ^ ror4(b0) ^ ((8 * a0) % 16);
    let a2 = t[0][a1 as usize];
    let b2 = t[1][b1 as usize];
    let a3 = a2 ^ b2;
    let b3 = a2 ^ ror4(b2) ^ ((8 * a2) % 16);
    let a4 = t[2][a3 as usize];
    let b4 = t[3][b3 as usize];
    16 * b4 + a4
}

/// a * b in GF(2)[x] / poly (poly includes the x^8 term): carry-less product, then reduction.
pub fn gf_mul(a: u8, b: u8, poly: u16) -> u8 {
    let mut prod: u16 = 0;
    let mut i = 0;
    while i < 8 {
        if (b >> i) & 1 == 1 {
            prod ^= (a as u16) << i;
        }
        i += 1;
    }
    let mut d = 15;
    while d > 8 {
        d -= 1; // d = 14 .. 8
        if (prod >> d) & 1 == 1 {
            prod ^= poly << (d - 8);
        }
    }
    prod as u8
}

/// Z = MDS * y (column vector), z0 the least significant byte.
pub fn mds(y: [u8; 4]) -> u32 {
    let mut z = [0u8; 4];
    let mut i = 0;
    while i < 4 {
        let mut j = 0;
        while j < 4 {
            z[i] ^= gf_mul(MDS[i][j], y[j], MDS_POLY);
            j += 1;
        }
        i += 1;
    }
    u32::from_le_bytes(z)
}

/// (s_{i,0}, .., s_{i,3}) = RS * (m_{8i}, .., m_{8i+7}).
pub fn rs(m: &[u8; 8]) -> [u8; 4] {
    let mut s = [0u8; 4];
    let mut i = 0;
    while i < 4 {
        let mut j = 0;
        while j < 8 {
            s[i] ^= gf_mul(RS[i][j], m[j], RS_POLY);
            j += 1;
        }
        i += 1;
    }
    s
}

/// h(X, L) with L = (L_0, .., L_{k-1}), k in {2, 3, 4} (section 4.3.2); unused entries of `l` are ignored.
pub fn h(x: u32, l: &[u32; 4], k: usize) -> u32 {
    let mut y = x.to_le_bytes();
    if k == 4 {
        let l3 = l[3].to_le_bytes();
        y = [q(1, y[0]) ^ l3[0], q(0, y[1]) ^ l3[1], q(0, y[2]) ^ l3[2], q(1, y[3]) ^ l3[3]];
    }
    if k >= 3 {
        let l2 = l[2].to_le_bytes();
        y = [q(1, y[0]) ^ l2[0], q(1, y[1]) ^ l2[1], q(0, y[2]) ^ l2[2], q(0, y[3]) ^ l2[3]];
    }
    let l1 = l[1].to_le_bytes();
    let l0 = l[0].to_le_bytes();
    let y0 = q(1, q(0, q(0, y[0]) ^ l1[0]) ^ l0[0]);
    let y1 = q(0, q(0, q(1, y[1]) ^ l1[1]) ^ l0[1]);
    let y2 = q(1, q(1, q(0, y[2]) ^ l1[2]) ^ l0[2]);
    let y3 = q(0, q(1, q(1, y[3]) ^ l1[3]) ^ l0[3]);
    mds([y0, y1, y2, y3])
}

fn key_word(m: &[u8], i: usize) -> u32 {
    u32::from_le_bytes([m[4 * i], m[4 * i + 1], m[4 * i + 2], m[4 * i + 3]])
}

/// h(X, M_e) (offset = 0) / h(X, M_o) (offset = 1) for the key bytes m (8k bytes): M_e = (M_0, M_2, ..),
/// M_o = (M_1, M_3, ..), M_i the little-endian key words.
pub fn h_key(x: u32, m: &[u8], k: usize, offset: usize) -> u32 {
    let mut l = [0u32; 4];
    let mut j = 0;
    while j < 4 {
        if j < k {
            l[j] = key_word(m, 2 * j + offset);
        }
        j += 1;
    }
    h(x, &l, k)
}

/// S-box key words S_0 .. S_{k-1} (S_i = RS * key bytes 8i..8i+7), unused entries zero.
pub fn sbox_key(key: &[u8], k: usize) -> [u32; 4] {
    let mut s = [0u32; 4];
    let mut i = 0;
    while i < 4 {
        if i < k {
            let mut m = [0u8; 8];
            let mut j = 0;
            while j < 8 {
                m[j] = key[8 * i + j];
                j += 1;
            }
            s[i] = u32::from_le_bytes(rs(&m));
        }
        i += 1;
    }
    s
}

/// g(X) = h(X, S), S = (S_{k-1}, .., S_0); `s` holds S_0 .. S_{k-1}.
pub fn g(x: u32, s: &[u32; 4], k: usize) -> u32 {
    let mut l = [0u32; 4];
    let mut j = 0;
    while j < 4 {
        if j < k {
            l[j] = s[k - 1 - j];
        }
        j += 1;
    }
    h(x, &l, k)
}

/// A_i = h(2i rho, M_e), B_i = ROL(h((2i+1) rho, M_o), 8), K_2i = A_i + B_i, K_2i+1 = ROL(A_i + 2 B_i, 9).
/// `hf(x, key bytes, k, 0/1)` is h(x, M_e / M_o).
pub fn key_schedule_with<H: Fn(u32, &[u8], usize, usize) -> u32>(key: &[u8], k: usize, hf: H) -> [u32; 40] {
    let mut out = [0u32; 40];
    let mut i = 0u32;
    while i < 20 {
        let a = hf((2 * i).wrapping_mul(RHO), key, k, 0);
        let b = hf((2 * i + 1).wrapping_mul(RHO), key, k, 1).rotate_left(8);
        out[2 * i as usize] = a.wrapping_add(b);
        out[2 * i as usize + 1] = a.wrapping_add(b).wrapping_add(b).rotate_left(9);
        i += 1;
    }
    out
}

fn words16(b: &[u8; 16]) -> [u32; 4] {
    let mut w = [0u32; 4];
    let mut i = 0;
    while i < 4 {
        w[i] = u32::from_le_bytes([b[4 * i], b[4 * i + 1], b[4 * i + 2], b[4 * i + 3]]);
        i += 1;
    }
    w
}
fn bytes16(w: &[u32; 4]) -> [u8; 16] {
    let mut o = [0u8; 16];
    let mut i = 0;
    while i < 4 {
        let b = w[i].to_le_bytes();
        let mut j = 0;
        while j < 4 {
            o[4 * i + j] = b[j];
            j += 1;
        }
        i += 1;
    }
    o
}

/// F(R0, R1, r): T0 = g(R0), T1 = g(ROL(R1, 8)), F0 = T0 + T1 + K_{2r+8}, F1 = T0 + 2 T1 + K_{2r+9}.
fn f_with<G: Fn(u32) -> u32>(r0: u32, r1: u32, round: usize, k: &[u32; 40], gf: &G) -> (u32, u32) {
    let t0 = gf(r0);
    let t1 = gf(r1.rotate_left(8));
    let f0 = t0.wrapping_add(t1).wrapping_add(k[2 * round + 8]);
    let f1 = t0.wrapping_add(t1).wrapping_add(t1).wrapping_add(k[2 * round + 9]);
    (f0, f1)
}

pub fn encrypt_with<G: Fn(u32) -> u32>(k: &[u32; 40], block: &[u8; 16], gf: G) -> [u8; 16] {
    let p = words16(block);
    let mut r = [p[0] ^ k[0], p[1] ^ k[1], p[2] ^ k[2], p[3] ^ k[3]];
    let mut round = 0;
    while round < 16 {
        let (f0, f1) = f_with(r[0], r[1], round, k, &gf);
        r = [(r[2] ^ f0).rotate_right(1), r[3].rotate_left(1) ^ f1, r[0], r[1]];
        round += 1;
    }
    // C_i = R_{16,(i+2) mod 4} ^ K_{i+4}
    let c = [r[2] ^ k[4], r[3] ^ k[5], r[0] ^ k[6], r[1] ^ k[7]];
    bytes16(&c)
}

pub fn decrypt_with<G: Fn(u32) -> u32>(k: &[u32; 40], block: &[u8; 16], gf: G) -> [u8; 16] {
    let c = words16(block);
    // R_16
    let mut r = [c[2] ^ k[6], c[3] ^ k[7], c[0] ^ k[4], c[1] ^ k[5]];
    let mut round = 16;
    while round > 0 {
        round -= 1;
        // r = R_{round+1}; R_round,0 = r[2], R_round,1 = r[3]
        let (f0, f1) = f_with(r[2], r[3], round, k, &gf);
        r = [r[2], r[3], r[0].rotate_left(1) ^ f0, (r[1] ^ f1).rotate_right(1)];
    }
    let p = [r[0] ^ k[0], r[1] ^ k[1], r[2] ^ k[2], r[3] ^ k[3]];
    bytes16(&p)
}

/// key: 16, 24 or 32 bytes.
pub fn encrypt(key: &[u8], block: &[u8; 16]) -> [u8; 16] {
    let k = key.len() / 8;
    let s = sbox_key(key, k);
    encrypt_with(&key_schedule_with(key, k, h_key), block, |x| g(x, &s, k))
}
pub fn decrypt(key: &[u8], block: &[u8; 16]) -> [u8; 16] {
    let k = key.len() / 8;
    let s = sbox_key(key, k);
    decrypt_with(&key_schedule_with(key, k, h_key), block, |x| g(x, &s, k))
}

//! RC5-w/r/b, written from R. Rivest, "The RC5 Encryption Algorithm" (1994/1997), sections 4.1-4.3.
//!
//! One runtime-parameterised model for every word size: words are held in `u128` and every operation is reduced
//! mod 2^w explicitly (so the model never uses a native w-bit type).  `x <<< y` uses only the lg(w) low bits of y
//! (the paper's rule for w a power of two).
//!
//! Constants.  The paper defines P_w = Odd((e-2) 2^w), Q_w = Odd((phi-1) 2^w) and lists them for w = 16, 32, 64
//! (those three pairs are copied from the paper: data).  For w = 8 and w = 128 the paper gives only the formula; the
//! values below were taken from the repository (data) and are *re-derived* natively from the binary expansions of
//! e and phi by `derive_pq` (called from the validation driver), so they are not trusted blindly.
//!
//! Word arithmetic is a parameter (`Ops`): `Canon(w)` is the model's own arithmetic (u128, reduced mod 2^w);
//! a harness may substitute another implementation of the four leaf operations after proving it extensionally equal
//! to `Canon(w)` (leaf lemma), e.g. to hand the solver the same gate structure on both sides of an equivalence.
//!
//! Const generics: `T` = 2(r+1) words of expanded key, `C` = max(1, ceil(8b/w)) key words.  They are array sizes only
//! (arrays above 64 elements are expensive for CBMC, so they are not over-allocated); `expand_key` recomputes c
//! from b and w as the paper does and the caller's C is checked against it.

pub const fn mask(w: u32) -> u128 {
    if w >= 128 {
        u128::MAX
    } else {
        (1u128 << w) - 1
    }
}

/// (P_w, Q_w)
pub const fn pq(w: u32) -> (u128, u128) {
    match w {
        8 => (0xb7, 0x9f),
        16 => (0xb7e1, 0x9e37),
        32 => (0xb7e15163, 0x9e3779b9),
        64 => (0xb7e151628aed2a6b, 0x9e3779b97f4a7c15),
        _ => (0xb7e151628aed2a6abf7158809cf4f3c7, 0x9e3779b97f4a7c15f39cc0605cedc835),
    }
}

/// First 128 fractional bits of e and of the golden ratio phi, plus the following 8 bits (for rounding):
/// e - 2 = 0.b7e151628aed2a6abf7158809cf4f3c7 62...,  phi - 1 = 0.9e3779b97f4a7c15f39cc0605cedc834 10...  (hex)
pub const E_FRAC: (u128, u8) = (0xb7e151628aed2a6abf7158809cf4f3c7, 0x62);
pub const PHI_FRAC: (u128, u8) = (0x9e3779b97f4a7c15f39cc0605cedc834, 0x10);

/// Odd(x 2^w): the odd integer nearest to x 2^w, from the binary expansion of x (validation only, never under Kani).
pub fn odd_nearest(frac: (u128, u8), w: u32) -> u128 {
    let int = if w == 128 { frac.0 } else { frac.0 >> (128 - w) };
    if int & 1 == 1 {
        // candidates int (distance = fractional part < 1) and int + 2 (distance > 1)
        int
    } else {
        // even: int - 1 is at distance 1 + f, int + 1 at distance 1 - f (f > 0 since e, phi are irrational)
        int + 1
    }
}
pub fn derive_pq(w: u32) -> (u128, u128) {
    (odd_nearest(E_FRAC, w), odd_nearest(PHI_FRAC, w))
}

pub fn add(x: u128, y: u128, w: u32) -> u128 {
    x.wrapping_add(y) & mask(w)
}
pub fn sub(x: u128, y: u128, w: u32) -> u128 {
    x.wrapping_sub(y) & mask(w)
}
/// x <<< y on w-bit words (w a power of two: only the low lg(w) bits of y count)
pub fn rotl(x: u128, y: u128, w: u32) -> u128 {
    let s = (y & (w as u128 - 1)) as u32;
    if s == 0 {
        x & mask(w)
    } else {
        ((x << s) | ((x & mask(w)) >> (w - s))) & mask(w)
    }
}
pub fn rotr(x: u128, y: u128, w: u32) -> u128 {
    let s = (y & (w as u128 - 1)) as u32;
    if s == 0 {
        x & mask(w)
    } else {
        (((x & mask(w)) >> s) | (x << (w - s))) & mask(w)
    }
}

/// The four leaf operations on w-bit words carried in u128 (results < 2^w; arguments are reduced mod 2^w).
pub trait Ops: Copy {
    fn add(&self, x: u128, y: u128) -> u128;
    fn sub(&self, x: u128, y: u128) -> u128;
    /// x <<< y (low lg(w) bits of y)
    fn rotl(&self, x: u128, y: u128) -> u128;
    fn rotr(&self, x: u128, y: u128) -> u128;
}
/// The model's own arithmetic for word size w.
#[derive(Clone, Copy)]
pub struct Canon(pub u32);
impl Ops for Canon {
    fn add(&self, x: u128, y: u128) -> u128 {
        add(x, y, self.0)
    }
    fn sub(&self, x: u128, y: u128) -> u128 {
        sub(x, y, self.0)
    }
    fn rotl(&self, x: u128, y: u128) -> u128 {
        rotl(x, y, self.0)
    }
    fn rotr(&self, x: u128, y: u128) -> u128 {
        rotr(x, y, self.0)
    }
}

/// c = max(1, ceil(8b/w))
pub const fn key_words(w: u32, b: usize) -> usize {
    let c = (8 * b + w as usize - 1) / w as usize;
    if c == 0 {
        1
    } else {
        c
    }
}

/// Step 1: "for i = b-1 downto 0 do L[i/u] = (L[i/u] <<< 8) + K[i]", u = w/8, L zero-initialised, c words.
pub fn key_to_words<const C: usize>(w: u32, key: &[u8]) -> [u128; C] {
    key_to_words_with::<C, Canon>(w, key, Canon(w))
}
pub fn key_to_words_with<const C: usize, O: Ops>(w: u32, key: &[u8], o: O) -> [u128; C] {
    let b = key.len();
    let u = (w / 8) as usize;
    assert!(key_words(w, b) == C);
    let mut l = [0u128; C];
    let mut i = b;
    while i > 0 {
        i -= 1;
        l[i / u] = o.add(o.rotl(l[i / u], 8), key[i] as u128);
    }
    l
}

/// Step 2: S[0] = P_w; S[i] = S[i-1] + Q_w, t = 2(r+1) words.
pub fn init_table<const T: usize>(w: u32) -> [u128; T] {
    init_table_with::<T, Canon>(w, Canon(w))
}
pub fn init_table_with<const T: usize, O: Ops>(w: u32, o: O) -> [u128; T] {
    let (p, q) = pq(w);
    let mut s = [0u128; T];
    s[0] = p;
    let mut i = 1;
    while i < T {
        s[i] = o.add(s[i - 1], q);
        i += 1;
    }
    s
}

/// Step 3: i = j = 0; A = B = 0; do 3 max(t, c) times:
///   A = S[i] = (S[i] + A + B) <<< 3;  B = L[j] = (L[j] + A + B) <<< (A + B);  i = (i+1) mod t; j = (j+1) mod c
pub fn mix<const T: usize, const C: usize>(w: u32, s: [u128; T], l: [u128; C]) -> [u128; T] {
    mix_with::<T, C, Canon>(s, l, Canon(w))
}
pub fn mix_with<const T: usize, const C: usize, O: Ops>(mut s: [u128; T], mut l: [u128; C], o: O) -> [u128; T] {
    let (mut i, mut j) = (0usize, 0usize);
    let (mut a, mut b) = (0u128, 0u128);
    let n = 3 * if T > C { T } else { C };
    let mut k = 0;
    while k < n {
        a = o.rotl(o.add(o.add(s[i], a), b), 3);
        s[i] = a;
        // "(L[j] + A + B) <<< (A + B)": the sum is read left to right, the rotation count is A + B
        let sum = o.add(o.add(l[j], a), b);
        let ab = o.add(a, b);
        b = o.rotl(sum, ab);
        l[j] = b;
        i = (i + 1) % T;
        j = (j + 1) % C;
        k += 1;
    }
    s
}

pub fn expand_key<const T: usize, const C: usize>(w: u32, key: &[u8]) -> [u128; T] {
    mix::<T, C>(w, init_table::<T>(w), key_to_words::<C>(w, key))
}
pub fn expand_key_with<const T: usize, const C: usize, O: Ops>(w: u32, key: &[u8], o: O) -> [u128; T] {
    // steps in the paper's order: 1 (bytes to words), 2 (initialise S), 3 (mix)
    let l = key_to_words_with::<C, O>(w, key, o);
    let s = init_table_with::<T, O>(w, o);
    mix_with::<T, C, O>(s, l, o)
}

/// A = A + S[0]; B = B + S[1]; for i = 1..r: A = ((A ^ B) <<< B) + S[2i]; B = ((B ^ A) <<< A) + S[2i+1]
pub fn encrypt_words<const T: usize>(w: u32, s: &[u128; T], a: u128, b: u128) -> (u128, u128) {
    encrypt_words_with::<T, Canon>(s, a & mask(w), b & mask(w), Canon(w))
}
pub fn encrypt_words_with<const T: usize, O: Ops>(s: &[u128; T], a: u128, b: u128, o: O) -> (u128, u128) {
    let r = T / 2 - 1;
    let mut a = o.add(a, s[0]);
    let mut b = o.add(b, s[1]);
    let mut i = 1;
    while i <= r {
        a = o.add(o.rotl(a ^ b, b), s[2 * i]);
        b = o.add(o.rotl(b ^ a, a), s[2 * i + 1]);
        i += 1;
    }
    (a, b)
}

/// for i = r downto 1: B = ((B - S[2i+1]) >>> A) ^ A; A = ((A - S[2i]) >>> B) ^ B;  B = B - S[1]; A = A - S[0]
pub fn decrypt_words<const T: usize>(w: u32, s: &[u128; T], a: u128, b: u128) -> (u128, u128) {
    decrypt_words_with::<T, Canon>(s, a & mask(w), b & mask(w), Canon(w))
}
pub fn decrypt_words_with<const T: usize, O: Ops>(s: &[u128; T], a: u128, b: u128, o: O) -> (u128, u128) {
    let r = T / 2 - 1;
    let (mut a, mut b) = (a, b);
    let mut i = r;
    while i >= 1 {
        b = o.rotr(o.sub(b, s[2 * i + 1]), a) ^ a;
        a = o.rotr(o.sub(a, s[2 * i]), b) ^ b;
        i -= 1;
    }
    // "B = B - S[1]; A = A - S[0]"
    let b = o.sub(b, s[1]);
    let a = o.sub(a, s[0]);
    (a, b)
}

/// Little-endian word <-> bytes (paper, section 4: "little-endian conventions").
pub fn word_from_le(bytes: &[u8]) -> u128 {
    let mut x = 0u128;
    let mut i = bytes.len();
    while i > 0 {
        i -= 1;
        x = (x << 8) | bytes[i] as u128;
    }
    x
}
pub fn word_to_le(x: u128, out: &mut [u8]) {
    let mut i = 0;
    while i < out.len() {
        out[i] = (x >> (8 * i)) as u8;
        i += 1;
    }
}

/// Block = A || B, each w/8 bytes little-endian.  `block` is transformed in place.
pub fn crypt_block<const T: usize>(w: u32, s: &[u128; T], block: &mut [u8], decrypt: bool) {
    crypt_block_with::<T, Canon>(w, s, block, decrypt, Canon(w))
}
pub fn crypt_block_with<const T: usize, O: Ops>(w: u32, s: &[u128; T], block: &mut [u8], decrypt: bool, o: O) {
    let u = (w / 8) as usize;
    assert!(block.len() == 2 * u);
    let a = word_from_le(&block[..u]);
    let b = word_from_le(&block[u..]);
    let (a, b) = if decrypt { decrypt_words_with(s, a, b, o) } else { encrypt_words_with(s, a, b, o) };
    word_to_le(a, &mut block[..u]);
    word_to_le(b, &mut block[u..]);
}

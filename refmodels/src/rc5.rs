//! oracle for rc5 — to be written from the specification

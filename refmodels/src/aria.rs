//! oracle for aria — to be written from the specification

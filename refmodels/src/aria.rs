//! ARIA (RFC 5794), written from the RFC's description: byte strings x0..x15, explicit substitution layers SL1/SL2,
//! the diffusion layer A as its sixteen XOR equations (RFC 5794 2.4.3), byte-wise 128-bit rotations.
//!
//! S-boxes are *generated* from the algebraic definition of the ARIA specification (RFC 5794 2.4.2 prints the
//! resulting tables): over GF(2^8) = GF(2)[x]/(x^8+x^4+x^3+x+1)
//!   SB1(x) = A * x^-1  ^ 0x63      (the AES S-box; x^-1 = x^254, 0^-1 = 0)
//!   SB2(x) = B * x^247 ^ 0xe2
//!   SB3 = SB1^-1, SB4 = SB2^-1
//! with the 8x8 bit matrices A, B below (row i gives output bit i as the parity of `row & y`, bit 0 = LSB).
//! The round-function constants C1..C3 (fractional part of 1/pi) are data of the RFC.
//!
//! Leaves exposed as generic parameters (u128 <-> big-endian byte string, matching aria/src/utils.rs):
//!   fo(x) = A(SL1(x)),  fe(x) = A(SL2(x)),  sl2(x) = SL2(x),  a(x) = A(x).

pub type B16 = [u8; 16];

const fn gmul(mut a: u8, mut b: u8) -> u8 {
    let mut r = 0u8;
    while b != 0 {
        if b & 1 != 0 {
            r ^= a;
        }
        let hi = a & 0x80 != 0;
        a <<= 1;
        if hi {
            a ^= 0x1b;
        }
        b >>= 1;
    }
    r
}
const fn gpow(x: u8, mut e: u32) -> u8 {
    let mut r = 1u8;
    let mut s = x;
    while e != 0 {
        if e & 1 != 0 {
            r = gmul(r, s);
        }
        s = gmul(s, s);
        e >>= 1;
    }
    r
}
const fn matvec(rows: &[u8; 8], y: u8) -> u8 {
    let mut o = 0u8;
    let mut i = 0;
    while i < 8 {
        if (rows[i] & y).count_ones() & 1 == 1 {
            o |= 1 << i;
        }
        i += 1;
    }
    o
}
/// A: b_i = y_i ^ y_{i+4} ^ y_{i+5} ^ y_{i+6} ^ y_{i+7} (indices mod 8) -- the AES affine matrix.
const MAT_A: [u8; 8] = [0xf1, 0xe3, 0xc7, 0x8f, 0x1f, 0x3e, 0x7c, 0xf8];
/// B of the ARIA specification, rows (LSB-first columns) 01011110 00111101 11010111 10011101 00101100 10000001
/// 01011101 11010011.
const MAT_B: [u8; 8] = [0x7a, 0xbc, 0xeb, 0xb9, 0x34, 0x81, 0xba, 0xcb];

const fn gen_sbox(rows: &[u8; 8], exp: u32, c: u8) -> [u8; 256] {
    let mut t = [0u8; 256];
    let mut x = 0usize;
    while x < 256 {
        t[x] = matvec(rows, gpow(x as u8, exp)) ^ c;
        x += 1;
    }
    t
}
const fn invert(t: &[u8; 256]) -> [u8; 256] {
    let mut o = [0u8; 256];
    let mut x = 0usize;
    while x < 256 {
        o[t[x] as usize] = x as u8;
        x += 1;
    }
    o
}

pub static SB1: [u8; 256] = gen_sbox(&MAT_A, 254, 0x63);
pub static SB2: [u8; 256] = gen_sbox(&MAT_B, 247, 0xe2);
pub static SB3: [u8; 256] = invert(&gen_sbox(&MAT_A, 254, 0x63));
pub static SB4: [u8; 256] = invert(&gen_sbox(&MAT_B, 247, 0xe2));

pub const C1: B16 = [0x51, 0x7c, 0xc1, 0xb7, 0x27, 0x22, 0x0a, 0x94, 0xfe, 0x13, 0xab, 0xe8, 0xfa, 0x9a, 0x6e, 0xe0];
pub const C2: B16 = [0x6d, 0xb1, 0x4a, 0xcc, 0x9e, 0x21, 0xc8, 0x20, 0xff, 0x28, 0xb1, 0xd5, 0xef, 0x5d, 0xe2, 0xb0];
pub const C3: B16 = [0xdb, 0x92, 0x37, 0x1d, 0x21, 0x26, 0xe9, 0x70, 0x03, 0x24, 0x97, 0x75, 0x04, 0xe8, 0xc9, 0x0e];

fn sbox(n: usize, v: u8) -> u8 {
    match n {
        0 => SB1[v as usize],
        1 => SB2[v as usize],
        2 => SB3[v as usize],
        _ => SB4[v as usize],
    }
}

/// Substitution layer type 1: SB1, SB2, SB3, SB4 repeated four times.
pub fn sl1_bytes(x: &B16) -> B16 {
    let mut y = [0u8; 16];
    let mut i = 0;
    while i < 16 {
        y[i] = sbox(i % 4, x[i]);
        i += 1;
    }
    y
}
/// Substitution layer type 2: SB3, SB4, SB1, SB2 repeated four times.
pub fn sl2_bytes(x: &B16) -> B16 {
    let mut y = [0u8; 16];
    let mut i = 0;
    while i < 16 {
        y[i] = sbox((i + 2) % 4, x[i]);
        i += 1;
    }
    y
}
/// Diffusion layer A (RFC 5794 2.4.3).
pub fn a_bytes(x: &B16) -> B16 {
    [
        x[3] ^ x[4] ^ x[6] ^ x[8] ^ x[9] ^ x[13] ^ x[14],
        x[2] ^ x[5] ^ x[7] ^ x[8] ^ x[9] ^ x[12] ^ x[15],
        x[1] ^ x[4] ^ x[6] ^ x[10] ^ x[11] ^ x[12] ^ x[15],
        x[0] ^ x[5] ^ x[7] ^ x[10] ^ x[11] ^ x[13] ^ x[14],
        x[0] ^ x[2] ^ x[5] ^ x[8] ^ x[11] ^ x[14] ^ x[15],
        x[1] ^ x[3] ^ x[4] ^ x[9] ^ x[10] ^ x[14] ^ x[15],
        x[0] ^ x[2] ^ x[7] ^ x[9] ^ x[10] ^ x[12] ^ x[13],
        x[1] ^ x[3] ^ x[6] ^ x[8] ^ x[11] ^ x[12] ^ x[13],
        x[0] ^ x[1] ^ x[4] ^ x[7] ^ x[10] ^ x[13] ^ x[15],
        x[0] ^ x[1] ^ x[5] ^ x[6] ^ x[11] ^ x[12] ^ x[14],
        x[2] ^ x[3] ^ x[5] ^ x[6] ^ x[8] ^ x[13] ^ x[15],
        x[2] ^ x[3] ^ x[4] ^ x[7] ^ x[9] ^ x[12] ^ x[14],
        x[1] ^ x[2] ^ x[6] ^ x[7] ^ x[9] ^ x[11] ^ x[12],
        x[0] ^ x[3] ^ x[6] ^ x[7] ^ x[8] ^ x[10] ^ x[13],
        x[0] ^ x[3] ^ x[4] ^ x[5] ^ x[9] ^ x[11] ^ x[14],
        x[1] ^ x[2] ^ x[4] ^ x[5] ^ x[8] ^ x[10] ^ x[15],
    ]
}

// ---- the leaves in the shape of the repository's functions (u128 = big-endian byte string) ----
pub fn sl1(x: u128) -> u128 {
    u128::from_be_bytes(sl1_bytes(&x.to_be_bytes()))
}
pub fn sl2(x: u128) -> u128 {
    u128::from_be_bytes(sl2_bytes(&x.to_be_bytes()))
}
pub fn a(x: u128) -> u128 {
    u128::from_be_bytes(a_bytes(&x.to_be_bytes()))
}
/// FO without the key addition: A(SL1(x))
pub fn fo(x: u128) -> u128 {
    a(sl1(x))
}
/// FE without the key addition: A(SL2(x))
pub fn fe(x: u128) -> u128 {
    a(sl2(x))
}

pub fn xor16(p: &B16, q: &B16) -> B16 {
    let mut o = [0u8; 16];
    let mut i = 0;
    while i < 16 {
        o[i] = p[i] ^ q[i];
        i += 1;
    }
    o
}
/// 128-bit right rotation (x >>> n) of a big-endian byte string, 0 <= n < 128.
pub fn ror(x: &B16, n: usize) -> B16 {
    let q = n / 8;
    let r = (n % 8) as u32;
    let mut o = [0u8; 16];
    let mut i = 0;
    while i < 16 {
        let hi = x[(i + 16 - q) % 16];
        let lo = x[(i + 15 - q) % 16];
        o[i] = if r == 0 { hi } else { (hi >> r) | (lo << (8 - r)) };
        i += 1;
    }
    o
}
/// 128-bit left rotation (x <<< n), 0 < n < 128.
pub fn rol(x: &B16, n: usize) -> B16 {
    ror(x, 128 - n)
}

fn ap<F: Fn(u128) -> u128>(f: &F, x: &B16) -> B16 {
    f(u128::from_be_bytes(*x)).to_be_bytes()
}

/// Encryption round keys ek1..ek17 (index 0..16; only the first nr+1 are used), RFC 5794 2.2.
/// nr = 12 / 14 / 16 for 128 / 192 / 256-bit keys; kr is the right key half padded with zeros.
pub fn enc_keys_with<FO: Fn(u128) -> u128, FE: Fn(u128) -> u128>(
    kl: &B16,
    kr: &B16,
    nr: usize,
    fo: &FO,
    fe: &FE,
) -> [B16; 17] {
    let (ck1, ck2, ck3) = match nr {
        12 => (C1, C2, C3),
        14 => (C2, C3, C1),
        _ => (C3, C1, C2),
    };
    let w0 = *kl;
    let w1 = xor16(&ap(fo, &xor16(&w0, &ck1)), kr);
    let w2 = xor16(&ap(fe, &xor16(&w1, &ck2)), &w0);
    let w3 = xor16(&ap(fo, &xor16(&w2, &ck3)), &w1);
    let w = [w0, w1, w2, w3];
    let mut ek = [[0u8; 16]; 17];
    let mut i = 0;
    while i < 17 {
        // ek_{i+1} = W_{i mod 4} ^ rot(W_{(i+1) mod 4}),  rot = >>>19, >>>31, <<<61, <<<31, <<<19 for groups of four
        let x = &w[i % 4];
        let y = &w[(i + 1) % 4];
        let ry = match i / 4 {
            0 => ror(y, 19),
            1 => ror(y, 31),
            2 => rol(y, 61),
            3 => rol(y, 31),
            _ => rol(y, 19),
        };
        ek[i] = xor16(x, &ry);
        i += 1;
    }
    ek
}

/// dk1 = ek_{nr+1}, dk_i = A(ek_{nr+2-i}) (2 <= i <= nr), dk_{nr+1} = ek1.
pub fn dec_keys_with<A: Fn(u128) -> u128>(ek: &[B16; 17], nr: usize, a: &A) -> [B16; 17] {
    let mut dk = [[0u8; 16]; 17];
    dk[0] = ek[nr];
    let mut i = 1;
    while i < nr {
        dk[i] = ap(a, &ek[nr - i]);
        i += 1;
    }
    dk[nr] = ek[0];
    dk
}

/// nr-1 rounds FO, FE, FO, ..., FO (each preceded by the key addition), then SL2(P ^ k_nr) ^ k_{nr+1}.
pub fn crypt_with<FO: Fn(u128) -> u128, FE: Fn(u128) -> u128, S2: Fn(u128) -> u128>(
    rk: &[B16; 17],
    nr: usize,
    block: &B16,
    fo: &FO,
    fe: &FE,
    s2: &S2,
) -> B16 {
    let mut p = *block;
    let mut i = 0;
    while i < nr - 1 {
        let t = xor16(&p, &rk[i]);
        p = if i % 2 == 0 { ap(fo, &t) } else { ap(fe, &t) };
        i += 1;
    }
    xor16(&ap(s2, &xor16(&p, &rk[nr - 1])), &rk[nr])
}

/// Splits a 16/24/32-byte key into (KL, KR padded, number of rounds).
pub fn split_key(key: &[u8]) -> (B16, B16, usize) {
    let mut kl = [0u8; 16];
    let mut kr = [0u8; 16];
    let mut i = 0;
    while i < 16 {
        kl[i] = key[i];
        i += 1;
    }
    while i < key.len() && i < 32 {
        kr[i - 16] = key[i];
        i += 1;
    }
    let nr = match key.len() {
        16 => 12,
        24 => 14,
        _ => 16,
    };
    (kl, kr, nr)
}

/// Encryption with every leaf abstract (key: 16, 24 or 32 bytes).
pub fn encrypt_with<FO: Fn(u128) -> u128, FE: Fn(u128) -> u128, S2: Fn(u128) -> u128>(
    key: &[u8],
    block: &B16,
    fo: &FO,
    fe: &FE,
    s2: &S2,
) -> B16 {
    let (kl, kr, nr) = split_key(key);
    let ek = enc_keys_with(&kl, &kr, nr, fo, fe);
    crypt_with(&ek, nr, block, fo, fe, s2)
}
pub fn decrypt_with<FO: Fn(u128) -> u128, FE: Fn(u128) -> u128, S2: Fn(u128) -> u128, A: Fn(u128) -> u128>(
    key: &[u8],
    block: &B16,
    fo: &FO,
    fe: &FE,
    s2: &S2,
    a: &A,
) -> B16 {
    let (kl, kr, nr) = split_key(key);
    let ek = enc_keys_with(&kl, &kr, nr, fo, fe);
    let dk = dec_keys_with(&ek, nr, a);
    crypt_with(&dk, nr, block, fo, fe, s2)
}

pub fn encrypt(key: &[u8], block: &B16) -> B16 {
    encrypt_with(key, block, &fo, &fe, &sl2)
}
pub fn decrypt(key: &[u8], block: &B16) -> B16 {
    decrypt_with(key, block, &fo, &fe, &sl2, &a)
}
pub fn encrypt128(key: &[u8; 16], block: &B16) -> B16 {
    encrypt(key, block)
}
pub fn decrypt128(key: &[u8; 16], block: &B16) -> B16 {
    decrypt(key, block)
}
pub fn encrypt192(key: &[u8; 24], block: &B16) -> B16 {
    encrypt(key, block)
}
pub fn decrypt192(key: &[u8; 24], block: &B16) -> B16 {
    decrypt(key, block)
}
pub fn encrypt256(key: &[u8; 32], block: &B16) -> B16 {
    encrypt(key, block)
}
pub fn decrypt256(key: &[u8; 32], block: &B16) -> B16 {
    decrypt(key, block)
}

//! oracle for serpent — to be written from the specification

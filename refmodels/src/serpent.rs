//! Serpent (Anderson, Biham, Knudsen, "Serpent: A Proposal for the Advanced Encryption Standard"), written from
//! the paper's description: the eight 4-bit S-boxes are the paper's tables; the cipher is expressed on four
//! 32-bit words X0..X3 (the paper's "bitslice mode": bit j of X0 is the least significant bit of the j-th 4-bit
//! column, so the initial/final permutations of the standard mode disappear).  Byte convention: words are read
//! little-endian from the 16 block bytes / 32 key bytes (the convention of the NESSIE vectors bundled with the
//! repository).  Inverse S-boxes are generated from the forward tables.

pub const PHI: u32 = 0x9e37_79b9;

/// S0..S7 of the AES submission.
pub const SBOX: [[u8; 16]; 8] = [
    [3, 8, 15, 1, 10, 6, 5, 11, 14, 13, 4, 2, 7, 0, 9, 12],
    [15, 12, 2, 7, 9, 0, 5, 10, 1, 11, 14, 8, 6, 13, 3, 4],
    [8, 6, 7, 9, 3, 12, 10, 15, 13, 1, 14, 4, 0, 11, 5, 2],
    [0, 15, 11, 8, 12, 9, 6, 3, 13, 1, 2, 4, 10, 7, 5, 14],
    [1, 15, 8, 3, 12, 0, 11, 6, 2, 5, 4, 10, 9, 14, 7, 13],
    [15, 5, 2, 11, 4, 10, 9, 12, 0, 3, 14, 8, 13, 6, 7, 1],
    [7, 2, 12, 5, 8, 4, 6, 11, 14, 9, 1, 15, 13, 3, 10, 0],
    [1, 13, 15, 0, 14, 8, 2, 11, 7, 4, 12, 10, 9, 3, 5, 6],
];

pub fn sbox_inv_table(i: usize) -> [u8; 16] {
    let mut t = [0u8; 16];
    let mut x = 0;
    while x < 16 {
        t[SBOX[i][x] as usize] = x as u8;
        x += 1;
    }
    t
}

/// Apply a 4-bit table to the 32 columns of (X0, X1, X2, X3); X0 carries the least significant bit.
fn columns(table: &[u8; 16], x: [u32; 4]) -> [u32; 4] {
    let mut y = [0u32; 4];
    let mut j = 0;
    while j < 32 {
        let nib = ((x[0] >> j) & 1) | (((x[1] >> j) & 1) << 1) | (((x[2] >> j) & 1) << 2) | (((x[3] >> j) & 1) << 3);
        let o = table[nib as usize] as u32;
        y[0] |= (o & 1) << j;
        y[1] |= ((o >> 1) & 1) << j;
        y[2] |= ((o >> 2) & 1) << j;
        y[3] |= ((o >> 3) & 1) << j;
        j += 1;
    }
    y
}

/// S_idx on all 32 columns, idx in 0..8.
pub fn apply_s(idx: usize, x: [u32; 4]) -> [u32; 4] {
    columns(&SBOX[idx], x)
}
/// S_idx^{-1} on all 32 columns, idx in 0..8.
pub fn apply_s_inv(idx: usize, x: [u32; 4]) -> [u32; 4] {
    columns(&sbox_inv_table(idx), x)
}

/// The linear transformation on (X0, X1, X2, X3).
pub fn lt(x: [u32; 4]) -> [u32; 4] {
    let (mut x0, mut x1, mut x2, mut x3) = (x[0], x[1], x[2], x[3]);
    x0 = x0.rotate_left(13);
    x2 = x2.rotate_left(3);
    x1 = x1 ^ x0 ^ x2;
    x3 = x3 ^ x2 ^ (x0 << 3);
    x1 = x1.rotate_left(1);
    x3 = x3.rotate_left(7);
    x0 = x0 ^ x1 ^ x3;
    x2 = x2 ^ x3 ^ (x1 << 7);
    x0 = x0.rotate_left(5);
    x2 = x2.rotate_left(22);
    [x0, x1, x2, x3]
}
/// Inverse linear transformation.
pub fn lt_inv(x: [u32; 4]) -> [u32; 4] {
    let (mut x0, mut x1, mut x2, mut x3) = (x[0], x[1], x[2], x[3]);
    x2 = x2.rotate_right(22);
    x0 = x0.rotate_right(5);
    x2 = x2 ^ x3 ^ (x1 << 7);
    x0 = x0 ^ x1 ^ x3;
    x3 = x3.rotate_right(7);
    x1 = x1.rotate_right(1);
    x3 = x3 ^ x2 ^ (x0 << 3);
    x1 = x1 ^ x0 ^ x2;
    x2 = x2.rotate_right(3);
    x0 = x0.rotate_right(13);
    [x0, x1, x2, x3]
}

/// User key of `len` bytes (16..=32, the first `len` bytes of `buf`) -> 256-bit key: "append one 1 bit to the
/// MSB end, followed by as many 0 bits as required" (the key is a little-endian number: byte `len` becomes 0x01).
pub fn pad_key(buf: &[u8; 32], len: usize) -> [u8; 32] {
    let mut k = [0u8; 32];
    let mut i = 0;
    while i < 32 {
        if i < len {
            k[i] = buf[i];
        } else if i == len {
            k[i] = 1;
        }
        i += 1;
    }
    k
}

fn words16(b: &[u8; 16]) -> [u32; 4] {
    let mut w = [0u32; 4];
    let mut i = 0;
    while i < 4 {
        w[i] = u32::from_le_bytes([b[4 * i], b[4 * i + 1], b[4 * i + 2], b[4 * i + 3]]);
        i += 1;
    }
    w
}
fn bytes16(w: &[u32; 4]) -> [u8; 16] {
    let mut o = [0u8; 16];
    let mut i = 0;
    while i < 4 {
        let b = w[i].to_le_bytes();
        o[4 * i] = b[0];
        o[4 * i + 1] = b[1];
        o[4 * i + 2] = b[2];
        o[4 * i + 3] = b[3];
        i += 1;
    }
    o
}

/// Prekeys w_{-8}..w_{-1} = key words; w_i = (w_{i-8} ^ w_{i-5} ^ w_{i-3} ^ w_{i-1} ^ PHI ^ i) <<< 11, i = 0..131;
/// round key K_i = S_{(3 - i) mod 8}(w_{4i}, w_{4i+1}, w_{4i+2}, w_{4i+3}), i = 0..32.
/// `s(idx, x)` is the S-box layer S_idx, idx in 0..8.
pub fn key_schedule_with<S: Fn(usize, [u32; 4]) -> [u32; 4]>(key256: &[u8; 32], s: S) -> [[u32; 4]; 33] {
    // window[j] = w_{i-8+j}
    let mut window = [0u32; 8];
    let mut j = 0;
    while j < 8 {
        window[j] = u32::from_le_bytes([key256[4 * j], key256[4 * j + 1], key256[4 * j + 2], key256[4 * j + 3]]);
        j += 1;
    }
    let mut rk = [[0u32; 4]; 33];
    let mut i = 0usize;
    while i < 33 {
        let mut quad = [0u32; 4];
        let mut l = 0;
        while l < 4 {
            let n = (4 * i + l) as u32;
            let w = (window[0] ^ window[3] ^ window[5] ^ window[7] ^ PHI ^ n).rotate_left(11);
            let mut t = 0;
            while t < 7 {
                window[t] = window[t + 1];
                t += 1;
            }
            window[7] = w;
            quad[l] = w;
            l += 1;
        }
        rk[i] = s((32 + 3 - i) % 8, quad);
        i += 1;
    }
    rk
}

fn xor4(a: [u32; 4], b: [u32; 4]) -> [u32; 4] {
    [a[0] ^ b[0], a[1] ^ b[1], a[2] ^ b[2], a[3] ^ b[3]]
}

/// B_{i+1} = L(S_{i mod 8}(B_i ^ K_i)), i = 0..30;  B_32 = S_7(B_31 ^ K_31) ^ K_32.
pub fn encrypt_with<S: Fn(usize, [u32; 4]) -> [u32; 4]>(rk: &[[u32; 4]; 33], block: &[u8; 16], s: S) -> [u8; 16] {
    let mut b = words16(block);
    let mut i = 0;
    while i < 31 {
        b = lt(s(i % 8, xor4(b, rk[i])));
        i += 1;
    }
    b = xor4(s(31 % 8, xor4(b, rk[31])), rk[32]);
    bytes16(&b)
}

/// Inverse of `encrypt_with`; `si(idx, x)` is S_idx^{-1}.
pub fn decrypt_with<SI: Fn(usize, [u32; 4]) -> [u32; 4]>(rk: &[[u32; 4]; 33], block: &[u8; 16], si: SI) -> [u8; 16] {
    let mut b = words16(block);
    b = xor4(si(31 % 8, xor4(b, rk[32])), rk[31]);
    let mut i = 31;
    while i > 0 {
        i -= 1;
        b = xor4(si(i % 8, lt_inv(b)), rk[i]);
    }
    bytes16(&b)
}

fn key_buf(key: &[u8]) -> ([u8; 32], usize) {
    let mut buf = [0u8; 32];
    let mut i = 0;
    while i < key.len() && i < 32 {
        buf[i] = key[i];
        i += 1;
    }
    (buf, key.len())
}

/// key: 16..=32 bytes.
pub fn encrypt(key: &[u8], block: &[u8; 16]) -> [u8; 16] {
    let (buf, len) = key_buf(key);
    encrypt_with(&key_schedule_with(&pad_key(&buf, len), apply_s), block, apply_s)
}
pub fn decrypt(key: &[u8], block: &[u8; 16]) -> [u8; 16] {
    let (buf, len) = key_buf(key);
    decrypt_with(&key_schedule_with(&pad_key(&buf, len), apply_s), block, apply_s_inv)
}

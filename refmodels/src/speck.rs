//! Speck 2n/mn, written from Beaulieu, Shors, Smith, Treatman-Clark, Weeks, Wingers, "The Simon and Speck Families of
//! Lightweight Block Ciphers" (ePrint 2013/404), section 4.
//!
//!   round:        R_k(x, y) = ((S^-a x + y) ^ k,  S^b y ^ (S^-a x + y) ^ k)
//!   key schedule: K = (l_{m-2}, ..., l_0, k_0);  l_{i+m-1} = (k_i + S^-a l_i) ^ i;  k_{i+1} = S^b k_i ^ l_{i+m-1}
//!   (a, b) = (7, 2) for n = 16 and (8, 3) otherwise;  T from Table 4.1 of the paper (data).
//!
//! One runtime-parameterised model for all ten variants: n-bit words are held in u64 and reduced mod 2^n explicitly.
//! Byte convention (the paper gives words only): the paper's printed order -- key bytes are l_{m-2} .. l_0 k_0, block
//! bytes are x then y, every word big-endian -- which is how the paper's test vectors read as hex strings.

#[derive(Clone, Copy)]
pub struct Params {
    /// word size in bits
    pub n: u32,
    /// key words
    pub m: usize,
    /// rounds
    pub t: usize,
    pub alpha: u32,
    pub beta: u32,
}

pub const MAX_T: usize = 34;
pub const MAX_L: usize = 36;

/// Table 4.1 (block size 2n, key size mn) -> rounds
pub const fn params(block_bits: u32, key_bits: u32) -> Params {
    let n = block_bits / 2;
    let m = (key_bits / n) as usize;
    let t = match (block_bits, key_bits) {
        (32, 64) => 22,
        (48, 72) => 22,
        (48, 96) => 23,
        (64, 96) => 26,
        (64, 128) => 27,
        (96, 96) => 28,
        (96, 144) => 29,
        (128, 128) => 32,
        (128, 192) => 33,
        (128, 256) => 34,
        _ => 0,
    };
    let (alpha, beta) = if n == 16 { (7, 2) } else { (8, 3) };
    Params { n, m, t, alpha, beta }
}

pub const fn mask(n: u32) -> u64 {
    if n >= 64 {
        u64::MAX
    } else {
        (1u64 << n) - 1
    }
}
/// S^j: left circular shift by j (0 < j < n) of an n-bit word
pub fn rol(x: u64, j: u32, n: u32) -> u64 {
    let x = x & mask(n);
    ((x << j) | (x >> (n - j))) & mask(n)
}
/// S^-j
pub fn ror(x: u64, j: u32, n: u32) -> u64 {
    let x = x & mask(n);
    ((x >> j) | (x << (n - j))) & mask(n)
}

pub fn round(p: &Params, k: u64, x: u64, y: u64) -> (u64, u64) {
    let x1 = (ror(x, p.alpha, p.n).wrapping_add(y & mask(p.n)) & mask(p.n)) ^ (k & mask(p.n));
    let y1 = rol(y, p.beta, p.n) ^ x1;
    (x1, y1)
}
/// R_k^-1(x, y) = (S^a((x ^ k) - S^-b(x ^ y)), S^-b(x ^ y))
pub fn inv_round(p: &Params, k: u64, x: u64, y: u64) -> (u64, u64) {
    let y0 = ror(x ^ y, p.beta, p.n);
    let x0 = rol(((x ^ k) & mask(p.n)).wrapping_sub(y0) & mask(p.n), p.alpha, p.n);
    (x0, y0)
}

/// Key words in the paper's order: kw[0] = l_{m-2}, ..., kw[m-2] = l_0, kw[m-1] = k_0.  Returns k_0 .. k_{T-1}.
pub fn key_schedule_words(p: &Params, kw: &[u64]) -> [u64; MAX_T] {
    key_schedule_words_with(p, kw, |k, x, y| round(p, k, x, y))
}
/// The same with the round function R_k as a parameter (the key schedule re-uses it: (l_{i+m-1}, k_{i+1}) = R_i(l_i, k_i)).
pub fn key_schedule_words_with<F: Fn(u64, u64, u64) -> (u64, u64)>(p: &Params, kw: &[u64], rf: F) -> [u64; MAX_T] {
    let mut k = [0u64; MAX_T];
    let mut l = [0u64; MAX_L];
    k[0] = kw[p.m - 1] & mask(p.n);
    let mut i = 0;
    while i + 1 < p.m {
        l[i] = kw[p.m - 2 - i] & mask(p.n);
        i += 1;
    }
    i = 0;
    while i + 1 < p.t {
        let (a, b) = rf(i as u64, l[i], k[i]);
        l[i + p.m - 1] = a;
        k[i + 1] = b;
        i += 1;
    }
    k
}
/// Direct transcription of the key schedule formulas (used by `key_schedule_words_direct_ok` to cross-check).
pub fn key_schedule_words_direct(p: &Params, kw: &[u64]) -> [u64; MAX_T] {
    let mut k = [0u64; MAX_T];
    let mut l = [0u64; MAX_L];
    k[0] = kw[p.m - 1] & mask(p.n);
    let mut i = 0;
    while i + 1 < p.m {
        l[i] = kw[p.m - 2 - i] & mask(p.n);
        i += 1;
    }
    i = 0;
    while i + 1 < p.t {
        l[i + p.m - 1] = (k[i].wrapping_add(ror(l[i], p.alpha, p.n)) & mask(p.n)) ^ (i as u64);
        k[i + 1] = rol(k[i], p.beta, p.n) ^ l[i + p.m - 1];
        i += 1;
    }
    k
}

pub fn word_from_be(b: &[u8]) -> u64 {
    let mut x = 0u64;
    let mut i = 0;
    while i < b.len() {
        x = (x << 8) | b[i] as u64;
        i += 1;
    }
    x
}
pub fn word_to_be(x: u64, out: &mut [u8]) {
    let len = out.len();
    let mut i = 0;
    while i < len {
        out[i] = (x >> (8 * (len - 1 - i))) as u8;
        i += 1;
    }
}

pub fn key_schedule(p: &Params, key: &[u8]) -> [u64; MAX_T] {
    key_schedule_with(p, key, |k, x, y| round(p, k, x, y))
}
pub fn key_schedule_with<F: Fn(u64, u64, u64) -> (u64, u64)>(p: &Params, key: &[u8], rf: F) -> [u64; MAX_T] {
    let wb = (p.n / 8) as usize;
    assert!(key.len() == p.m * wb);
    let mut kw = [0u64; 4];
    let mut i = 0;
    while i < p.m {
        kw[i] = word_from_be(&key[i * wb..(i + 1) * wb]);
        i += 1;
    }
    key_schedule_words_with(p, &kw[..p.m], rf)
}

pub fn encrypt_words(p: &Params, rk: &[u64; MAX_T], x: u64, y: u64) -> (u64, u64) {
    encrypt_words_with(p, rk, x, y, |k, x, y| round(p, k, x, y))
}
pub fn encrypt_words_with<F: Fn(u64, u64, u64) -> (u64, u64)>(p: &Params, rk: &[u64; MAX_T], mut x: u64, mut y: u64, rf: F) -> (u64, u64) {
    let mut i = 0;
    while i < p.t {
        (x, y) = rf(rk[i], x, y);
        i += 1;
    }
    (x, y)
}
pub fn decrypt_words(p: &Params, rk: &[u64; MAX_T], x: u64, y: u64) -> (u64, u64) {
    decrypt_words_with(p, rk, x, y, |k, x, y| inv_round(p, k, x, y))
}
pub fn decrypt_words_with<F: Fn(u64, u64, u64) -> (u64, u64)>(p: &Params, rk: &[u64; MAX_T], mut x: u64, mut y: u64, irf: F) -> (u64, u64) {
    let mut i = p.t;
    while i > 0 {
        i -= 1;
        (x, y) = irf(rk[i], x, y);
    }
    (x, y)
}

/// block = x || y (big-endian words), transformed in place
pub fn crypt_block(p: &Params, rk: &[u64; MAX_T], block: &mut [u8], decrypt: bool) {
    if decrypt {
        crypt_block_with(p, rk, block, true, |k, x, y| inv_round(p, k, x, y))
    } else {
        crypt_block_with(p, rk, block, false, |k, x, y| round(p, k, x, y))
    }
}
/// `f` is the round function for encryption, the inverse round function for decryption.
pub fn crypt_block_with<F: Fn(u64, u64, u64) -> (u64, u64)>(p: &Params, rk: &[u64; MAX_T], block: &mut [u8], decrypt: bool, f: F) {
    let wb = (p.n / 8) as usize;
    assert!(block.len() == 2 * wb);
    let x = word_from_be(&block[..wb]);
    let y = word_from_be(&block[wb..]);
    let (x, y) = if decrypt { decrypt_words_with(p, rk, x, y, f) } else { encrypt_words_with(p, rk, x, y, f) };
    word_to_be(x, &mut block[..wb]);
    word_to_be(y, &mut block[wb..]);
}

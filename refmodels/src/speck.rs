//! oracle for speck — to be written from the specification

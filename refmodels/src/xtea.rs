//! oracle for xtea — to be written from the specification

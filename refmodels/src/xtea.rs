//! XTEA (Needham, Wheeler: "Tea extensions", 1997), 32 cycles = 64 Feistel rounds, written from the paper's
//! reference routine.  Words of key and block are taken little-endian from the byte strings (the convention
//! the property statement fixes: "32-cycle XTEA over little-endian words").

pub const DELTA: u32 = 0x9E3779B9;
pub const CYCLES: u32 = 32;

fn le_word(b: &[u8], i: usize) -> u32 {
    (b[4 * i] as u32) | ((b[4 * i + 1] as u32) << 8) | ((b[4 * i + 2] as u32) << 16) | ((b[4 * i + 3] as u32) << 24)
}
fn put_le(o: &mut [u8; 8], i: usize, w: u32) {
    o[4 * i] = w as u8;
    o[4 * i + 1] = (w >> 8) as u8;
    o[4 * i + 2] = (w >> 16) as u8;
    o[4 * i + 3] = (w >> 24) as u8;
}

pub fn key_words(key: &[u8; 16]) -> [u32; 4] {
    [le_word(key, 0), le_word(key, 1), le_word(key, 2), le_word(key, 3)]
}

/// encipher(v, k): y += (z<<4 ^ z>>5) + z ^ sum + k[sum&3]; sum += delta; z += (y<<4 ^ y>>5) + y ^ sum + k[sum>>11 & 3]
pub fn encipher(k: &[u32; 4], v: [u32; 2]) -> [u32; 2] {
    let mut y = v[0];
    let mut z = v[1];
    let mut sum = 0u32;
    let mut n = 0;
    while n < CYCLES {
        y = y.wrapping_add((((z << 4) ^ (z >> 5)).wrapping_add(z)) ^ (sum.wrapping_add(k[(sum & 3) as usize])));
        sum = sum.wrapping_add(DELTA);
        z = z.wrapping_add((((y << 4) ^ (y >> 5)).wrapping_add(y)) ^ (sum.wrapping_add(k[((sum >> 11) & 3) as usize])));
        n += 1;
    }
    [y, z]
}

pub fn decipher(k: &[u32; 4], v: [u32; 2]) -> [u32; 2] {
    let mut y = v[0];
    let mut z = v[1];
    let mut sum = DELTA.wrapping_mul(CYCLES);
    let mut n = 0;
    while n < CYCLES {
        z = z.wrapping_sub((((y << 4) ^ (y >> 5)).wrapping_add(y)) ^ (sum.wrapping_add(k[((sum >> 11) & 3) as usize])));
        sum = sum.wrapping_sub(DELTA);
        y = y.wrapping_sub((((z << 4) ^ (z >> 5)).wrapping_add(z)) ^ (sum.wrapping_add(k[(sum & 3) as usize])));
        n += 1;
    }
    [y, z]
}

pub fn encrypt(key: &[u8; 16], block: &[u8; 8]) -> [u8; 8] {
    let r = encipher(&key_words(key), [le_word(block, 0), le_word(block, 1)]);
    let mut o = [0u8; 8];
    put_le(&mut o, 0, r[0]);
    put_le(&mut o, 1, r[1]);
    o
}
pub fn decrypt(key: &[u8; 16], block: &[u8; 8]) -> [u8; 8] {
    let r = decipher(&key_words(key), [le_word(block, 0), le_word(block, 1)]);
    let mut o = [0u8; 8];
    put_le(&mut o, 0, r[0]);
    put_le(&mut o, 1, r[1]);
    o
}

//! native validation of the oracles of this family (Kuznyechik, Magma / GOST 28147-89, BelT) against the
//! repository's vectors and the standards' own worked examples.
//! None of the three crates ships .blb files: kuznyechik and belt-block carry their vectors in tests/mod.rs,
//! magma only in the crate-level doc example.  All of them are typed in here.
#![allow(unused)]
use crate::T;
use refmodels::{belt, gost, kuznyechik as kz};

fn hx(s: &str) -> Vec<u8> {
    let s: String = s.chars().filter(|c| !c.is_whitespace()).collect();
    (0..s.len() / 2).map(|i| u8::from_str_radix(&s[2 * i..2 * i + 2], 16).unwrap()).collect()
}
fn a16(s: &str) -> [u8; 16] {
    hx(s).try_into().unwrap()
}
fn a32(s: &str) -> [u8; 32] {
    hx(s).try_into().unwrap()
}
fn a8(s: &str) -> [u8; 8] {
    hx(s).try_into().unwrap()
}
fn w(s: &str) -> u32 {
    u32::from_str_radix(s, 16).unwrap()
}

fn kuznyechik(t: &mut T) {
    // GOST R 34.12-2015 A.1.1 .. A.1.3: S, R, L examples
    let s_chain = [
        "ffeeddccbbaa99881122334455667700",
        "b66cd8887d38e8d77765aeea0c9a7efc",
        "559d8dd7bd06cbfe7e7b262523280d39",
        "0c3322fed531e4630d80ef5c5a81c50b",
        "23ae65633f842d29c5df529c13f5acda",
    ];
    let mut ok = true;
    for i in 0..4 {
        ok &= kz::s(&a16(s_chain[i])) == a16(s_chain[i + 1]);
        ok &= kz::s_inv(&a16(s_chain[i + 1])) == a16(s_chain[i]);
    }
    t.check("kuznyechik S examples", ok);
    // the bit-expanded l equals the plain sum of field products: exhaustive per (position, byte) -- complete because
    // both are GF(2)-linear in the 128 input bits -- plus mixed inputs; gf_mul against an independent shift-and-reduce
    let mut ok = true;
    for p in 0..16 {
        for v in 0..=255u8 {
            let mut a = [0u8; 16];
            a[p] = v;
            ok &= kz::l_func(&a) == kz::l_func_plain(&a);
        }
    }
    let mut a = [0u8; 16];
    for n in 0..4096u32 {
        for (i, x) in a.iter_mut().enumerate() {
            *x = (n.wrapping_mul(2654435761).rotate_left(i as u32) ^ (i as u32 * 97)) as u8;
        }
        ok &= kz::l_func(&a) == kz::l_func_plain(&a);
    }
    fn mul_ref(mut a: u8, mut b: u8) -> u8 {
        let mut c = 0;
        while b != 0 {
            if b & 1 != 0 {
                c ^= a;
            }
            a = (a << 1) ^ if a & 0x80 != 0 { 0xC3 } else { 0 };
            b >>= 1;
        }
        c
    }
    for x in 0..=255u8 {
        for y in 0..=255u8 {
            ok &= kz::gf_mul(x, y) == mul_ref(x, y);
        }
    }
    for j in 0..16 {
        for v in 0..=255u8 {
            ok &= kz::mul_lc(j, v) == kz::gf_mul(kz::LC[j], v);
        }
    }
    t.check("kuznyechik l forms, gf_mul", ok);
    let r_chain = [
        "00000000000000000000000000000100",
        "94000000000000000000000000000001",
        "a5940000000000000000000000000000",
        "64a59400000000000000000000000000",
        "0d64a594000000000000000000000000",
    ];
    let mut ok = true;
    for i in 0..4 {
        ok &= kz::r(&a16(r_chain[i])) == a16(r_chain[i + 1]);
        ok &= kz::r_inv(&a16(r_chain[i + 1])) == a16(r_chain[i]);
    }
    t.check("kuznyechik R examples", ok);
    let l_chain = [
        "64a59400000000000000000000000000",
        "d456584dd0e3e84cc3166e4b7fa2890d",
        "79d26221b87b584cd42fbc4ffea5de9a",
        "0e93691a0cfc60408b7b68f66b513c13",
        "e6a8094fee0aa204fd97bcb0b44b8580",
    ];
    let mut ok = true;
    for i in 0..4 {
        ok &= kz::l(&a16(l_chain[i])) == a16(l_chain[i + 1]);
        ok &= kz::l_inv(&a16(l_chain[i + 1])) == a16(l_chain[i]);
    }
    t.check("kuznyechik L examples", ok);
    // A.1.4 key schedule
    let key = a32("8899aabbccddeeff0011223344556677fedcba98765432100123456789abcdef");
    t.check("kuznyechik C_1, C_2", kz::c(1) == a16("6ea276726c487ab85d27bd10dd849401") && kz::c(2) == a16("dc87ece4d890f4b3ba4eb92079cbeb02"));
    let rk = kz::key_schedule(&key);
    let exp = [
        "8899aabbccddeeff0011223344556677",
        "fedcba98765432100123456789abcdef",
        "db31485315694343228d6aef8cc78c44",
        "3d4553d8e9cfec6815ebadc40a9ffd04",
        "57646468c44a5e28d3e59246f429f1ac",
        "bd079435165c6432b532e82834da581b",
        "51e640757e8745de705727265a0098b1",
        "5a7925017b9fdd3ed72a91a22286f984",
        "bb44e25378c73123a5f32f73cdb6e517",
        "72e9dd7416bcf45b755dbaa88e4a4043",
    ];
    t.check("kuznyechik round keys K1..K10", (0..10).all(|i| rk[i] == a16(exp[i])));
    // A.1.5 / A.1.6 (also kuznyechik/tests/mod.rs `kuznyechik`)
    let pt = a16("1122334455667700ffeeddccbbaa9988");
    let ct = a16("7f679d90bebc24305a468d42b9d4edcd");
    t.check("kuznyechik standard vector", kz::encrypt(&key, &pt) == ct && kz::decrypt(&key, &ct) == pt);
    // kuznyechik/tests/mod.rs `kuznyechik_chain`: key [42; 32], 32 blocks with block[i][0] = i, 2^16 iterations
    let expected = [
        "11D15674379CD494AD88593829490D88", "CD6FADA332F2A0DA822104CC1504AC25", "42E01F93BA3A32B63BFD510422C3C63E",
        "98CF3C6A666C615E2E30AEA728AE5F99", "48D0A38142D67888B655AAB30F6A272C", "AAC6FB321587253415ADEC32781125B6",
        "73511E76309D5828E5B101E41A905F8B", "6411E97F18C3880877993C6D89320923", "8DFA86AAAB005B656B4DEC969C12D920",
        "62B1EC7E54B2F2AC4CD2A4CC35A667DF", "FB28F70F8F7E57AADBFE16914BFA182E", "DA549C44F5B67C35BB36B482B0D1395B",
        "B54A552F1EF9F42B9EA807573202F67D", "625A9CD84D0B1FFDD194ECD2967AE637", "8D289AFB65774FC553090FBBC4869990",
        "8CDE9FCF9BDBFCC7465481F4D305EFC3", "60A8836A71692E2975935E6AD357C22F", "90CB51859D95A03D472EAD2FE8001A73",
        "32CD8B2FBD2826646EC05400A9FD2026", "426B92425A2C36A1F78A6D548EE092A1", "7CE00E51E8BA451EE3117B3655736200",
        "A5A8D7ADA61A55E632DC18A40E11A536", "5506E07D1CDF1E9CBB976FE5C06F65B6", "968DBF83021137C4E28FBB5E045A9806",
        "2B5D4D11ED27B9F3AFDACEF63099FE8F", "960D76DBA4B3019AD7ABA1F2B62C195A", "D9CCB67B70E3EBEC9729234B57D389BE",
        "42E01DCBF710D24BB95D62BCD6D980B4", "4346E56B5CDE431ABD256812AF44B862", "5B20A5A85A484758470B102D4D8B4B5A",
        "547DBA406B244657CAC3052E4CC93616", "E350A265B6E2F43910C26F875CB8ADD6",
    ];
    // the oracle is slow (bitwise field arithmetic): tabulate L S / S^-1 L^-1 per byte position once, by linearity of L
    // -- this is a device of the validation driver only, cross-checked against the plain oracle below.
    let rk = kz::key_schedule(&[42u8; 32]);
    let mut ls_t = vec![[[0u8; 16]; 256]; 16];
    let mut li_t = vec![[[0u8; 16]; 256]; 16];
    for p in 0..16 {
        for v in 0..256 {
            let mut e = [0u8; 16];
            e[p] = v as u8;
            ls_t[p][v] = kz::l(&e);
            li_t[p][v] = kz::l_inv(&e);
        }
    }
    let fast_l = |tab: &Vec<[[u8; 16]; 256]>, a: &[u8; 16]| {
        let mut o = [0u8; 16];
        for p in 0..16 {
            for j in 0..16 {
                o[j] ^= tab[p][a[p] as usize][j];
            }
        }
        o
    };
    let mut ok = true;
    let mut blocks = [[0u8; 16]; 32];
    for (i, b) in blocks.iter_mut().enumerate() {
        b[0] = i as u8;
    }
    // cross-check the tabulated L against the oracle on the evolving data
    for (i, b) in blocks.iter().enumerate() {
        let mut z = *b;
        z[5] = 0xA7 ^ i as u8;
        z[15] = 0x31;
        ok &= fast_l(&ls_t, &z) == kz::l(&z) && fast_l(&li_t, &z) == kz::l_inv(&z);
        ok &= kz::encrypt_with(&rk, &z, |a| fast_l(&ls_t, &kz::s(a))) == kz::encrypt_with(&rk, &z, kz::ls);
    }
    for _ in 0..(1 << 16) {
        for b in blocks.iter_mut() {
            *b = kz::encrypt_with(&rk, b, |a| fast_l(&ls_t, &kz::s(a)));
        }
    }
    ok &= (0..32).all(|i| blocks[i] == a16(expected[i]));
    // plain oracle on the final blocks: one decryption and re-encryption each
    for b in blocks.iter() {
        let d = kz::decrypt_with(&rk, b, kz::s_inv, kz::l_inv);
        ok &= kz::encrypt_with(&rk, &d, kz::ls) == *b;
        ok &= d == kz::decrypt_with(&rk, b, kz::s_inv, |a| fast_l(&li_t, a));
    }
    for _ in 0..(1 << 16) {
        for b in blocks.iter_mut() {
            *b = kz::decrypt_with(&rk, b, kz::s_inv, |a| fast_l(&li_t, a));
        }
    }
    ok &= blocks.iter().enumerate().all(|(i, b)| b[0] == i as u8 && b[1..].iter().all(|&x| x == 0));
    t.check("kuznyechik chain 32x65536", ok);
}

fn magma(t: &mut T) {
    let sb = &gost::TC26;
    // GOST R 34.12-2015 A.2.1: t
    let tc = ["fdb97531", "2a196f34", "ebd9f03a", "b039bb3d", "68695433"];
    t.check("magma t examples", (0..4).all(|i| gost::t(sb, w(tc[i])) == w(tc[i + 1])));
    // A.2.2: g[k](a)
    //   g[87654321](fedcba98) = fdcbc20c, g[fdcbc20c](87654321) = 7e791a4b, g[7e791a4b](fdcbc20c) = c76549ec, ...
    let gc = ["fedcba98", "87654321", "fdcbc20c", "7e791a4b", "c76549ec", "9791c849"];
    t.check("magma g examples", (0..4).all(|i| gost::g(sb, w(gc[i]), w(gc[i + 1])) == w(gc[i + 2])));
    // A.2.3 round-key order
    let order: Vec<usize> = (0..32).map(gost::key_index).collect();
    let mut exp: Vec<usize> = Vec::new();
    for _ in 0..3 {
        exp.extend(0..8);
    }
    exp.extend((0..8).rev());
    t.check("magma round-key order", order == exp);
    // A.2.4 / A.2.5 and the doc example of magma/src/lib.rs
    let key = a32("ffeeddccbbaa99887766554433221100f0f1f2f3f4f5f6f7f8f9fafbfcfdfeff");
    let pt = a8("fedcba9876543210");
    let ct = a8("4ee901e5c2d8ca3d");
    t.check("magma standard vector", gost::encrypt(sb, &key, &pt) == ct && gost::decrypt(sb, &key, &ct) == pt);
    // every set: decryption inverts encryption on a few inputs, and the sets differ from each other
    let sets: [(&str, &gost::Sboxes); 8] = [
        ("Tc26", &gost::TC26), ("Test", &gost::TEST), ("CryptoProA", &gost::CRYPTOPRO_A), ("CryptoProB", &gost::CRYPTOPRO_B),
        ("CryptoProC", &gost::CRYPTOPRO_C), ("CryptoProD", &gost::CRYPTOPRO_D), ("UserA", &gost::USER_A), ("UserB", &gost::USER_B),
    ];
    let mut ok = true;
    let mut cts = Vec::new();
    for (_, s) in sets.iter() {
        let c = gost::encrypt(s, &key, &pt);
        ok &= gost::decrypt(s, &key, &c) == pt;
        ok &= s.iter().all(|row| row.iter().all(|&v| v < 16));
        cts.push(c);
    }
    for i in 0..cts.len() {
        for j in 0..i {
            ok &= cts[i] != cts[j];
        }
    }
    // the bundled sets and USER_A are permutations
    for (_, s) in sets[..7].iter() {
        for row in s.iter() {
            let mut seen = [false; 16];
            for &v in row.iter() {
                seen[v as usize] = true;
            }
            ok &= seen.iter().all(|&b| b);
        }
    }
    t.check("gost89 all sets: inverse, distinct", ok);
}

const MAXW: usize = 256;
fn belt_fix(x: &[u8]) -> ([u8; MAXW], usize) {
    let mut b = [0u8; MAXW];
    b[..x.len()].copy_from_slice(x);
    (b, x.len())
}

fn belt(t: &mut T) {
    // STB 34.101.31 Table A.1 / A.2 (belt-block/tests/mod.rs `belt_block`)
    let k1 = a32("E9DEE72C 8F0C0FA6 2DDB49F4 6F739647 06075316 ED247A37 39CBA383 03A98BF6");
    let k2 = a32("92BD9B1C E5D14101 5445FBC9 5E4D0EF2 682080AA 227D642F 2687F934 90405511");
    let v = [
        (k1, a16("B194BAC8 0A08F53B 366D008E 584A5DE4"), a16("69CCA1C9 3557C9E3 D66BC3E0 FA88FA6E")),
        (k2, a16("0DC53006 00CAB840 B38448E5 E993F421"), a16("E12BDC1A E28257EC 703FCCF0 95EE8DF1")),
    ];
    t.check("belt-block A.1/A.2", v.iter().all(|(k, p, c)| belt::encrypt(k, p) == *c && belt::decrypt(k, c) == *p));
    // the first row of H is the beginning of the standard's test data
    t.check("belt H first row / permutation", belt::H[..16] == a16("B194BAC8 0A08F53B 366D008E 584A5DE4")[..] && {
        let mut seen = [false; 256];
        belt::H.iter().for_each(|&x| seen[x as usize] = true);
        seen.iter().all(|&b| b)
    });
    // Tables A.6 / A.7 (belt-block/tests/mod.rs `belt_wblock`)
    let x1 = hx("B194BAC8 0A08F53B 366D008E 584A5DE4 8504FA9D 1BB6C7AC 252E72C2 02FDCE0D 5BE3D612 17B96181 FE6786AD 716B890B");
    let y1 = hx("49A38EE1 08D6C742 E52B774F 00A6EF98 B106CBD1 3EA4FB06 80323051 BC04DF76 E487B055 C69BCF54 1176169F 1DC9F6C8");
    let x2 = hx("B194BAC8 0A08F53B 366D008E 584A5DE4 8504FA9D 1BB6C7AC 252E72C2 02FDCE0D 5BE3D612 17B96181 FE6786AD 716B89");
    let y2 = hx("F08EF22D CAA06C81 FB127219 74221CA7 AB82C628 56FCF2F9 FCA006E0 19A28F16 E5821A51 F5735946 25DBAB8F 6A5C94");
    let y3 = hx("E12BDC1A E28257EC 703FCCF0 95EE8DF1 C1AB7638 9FE678CA F7C6F860 D5BB9C4F F33C657B 637C306A DD4EA779 9EB23D31");
    let x3 = hx("92632EE0 C21AD9E0 9A39343E 5C07DAA4 889B03F2 E6847EB1 52EC99F7 A4D9F154 B5EF68D8 E4A39E56 7153DE13 D72254EE");
    let x4 = hx("DF3F8822 30BAAFFC 92F05660 32117231 0E3CB218 2681EF43 102E6717 5E177BD7 5E93E4E8");
    let y4 = hx("E12BDC1A E28257EC 703FCCF0 95EE8DF1 C1AB7638 9FE678CA F7C6F860 D5BB9C4F F33C657B");
    let mut ok = true;
    for (k, x, y) in [(k1, &x1, &y1), (k1, &x2, &y2), (k2, &x3, &y3), (k2, &x4, &y4)] {
        let (xb, n) = belt_fix(x);
        let (yb, _) = belt_fix(y);
        ok &= belt::wblock_enc(&k, &xb, n) == Some(yb);
        ok &= belt::wblock_dec(&k, &yb, n) == Some(xb);
    }
    t.check("belt-wbl A.6/A.7", ok);
    // domain
    let (xb, _) = belt_fix(&x1);
    t.check("belt-wbl domain", (0..32).all(|n| belt::wblock_enc(&k1, &xb, n).is_none() && belt::wblock_dec(&k1, &xb, n).is_none()));
    // octet-list formulation == explicit block-list formulation for whole numbers of blocks; inverse on all lengths
    let data: Vec<u8> = (0..MAXW).map(|i| (i * 37 + 11) as u8 ^ (i >> 3) as u8).collect();
    let mut ok = true;
    fn blocks<const N: usize>(d: &[u8]) -> [[u8; 16]; N] {
        let mut o = [[0u8; 16]; N];
        for i in 0..N {
            o[i].copy_from_slice(&d[16 * i..16 * i + 16]);
        }
        o
    }
    fn flat<const N: usize>(b: &[[u8; 16]; N]) -> Vec<u8> {
        b.iter().flatten().copied().collect()
    }
    macro_rules! cross {
        ($n:expr) => {{
            let (xb, len) = belt_fix(&data[..16 * $n]);
            let e = belt::wblock_enc(&k1, &xb, len).unwrap();
            let eb = belt::wblock_enc_blocks::<$n, _>(&blocks::<$n>(&data), |b| belt::encrypt(&k1, b));
            ok &= e[..len] == flat(&eb)[..];
            let d = belt::wblock_dec(&k1, &xb, len).unwrap();
            let db = belt::wblock_dec_blocks::<$n, _>(&blocks::<$n>(&data), |b| belt::encrypt(&k1, b));
            ok &= d[..len] == flat(&db)[..];
        }};
    }
    macro_rules! crossw {
        ($n:expr) => {{
            let mut w = [0u128; $n];
            for i in 0..$n {
                w[i] = u128::from_le_bytes(data[16 * i..16 * i + 16].try_into().unwrap());
            }
            let (xb, len) = belt_fix(&data[..16 * $n]);
            let ew = belt::wblock_enc_words::<$n, _>(&w, |b| u128::from_le_bytes(belt::encrypt(&k1, &b.to_le_bytes())));
            let dw = belt::wblock_dec_words::<$n, _>(&w, |b| u128::from_le_bytes(belt::encrypt(&k1, &b.to_le_bytes())));
            let e = belt::wblock_enc(&k1, &xb, len).unwrap();
            let d = belt::wblock_dec(&k1, &xb, len).unwrap();
            let fl = |w: &[u128; $n]| -> Vec<u8> { w.iter().flat_map(|v| v.to_le_bytes()).collect() };
            ok &= e[..len] == fl(&ew)[..] && d[..len] == fl(&dw)[..];
        }};
    }
    crossw!(2);
    crossw!(3);
    crossw!(5);
    crossw!(16);
    cross!(2);
    cross!(3);
    cross!(4);
    cross!(5);
    cross!(7);
    cross!(16);
    for len in 32..=MAXW {
        let (xb, _) = belt_fix(&data[..len]);
        let e = belt::wblock_enc(&k2, &xb, len).unwrap();
        ok &= e[len..].iter().all(|&b| b == 0) && e != xb;
        ok &= belt::wblock_dec(&k2, &e, len) == Some(xb);
        let d = belt::wblock_dec(&k2, &xb, len).unwrap();
        ok &= belt::wblock_enc(&k2, &d, len) == Some(xb);
    }
    t.check("belt-wbl block-list form, inverse 32..=256", ok);
}

pub fn run(repo: &str, t: &mut T) {
    kuznyechik(t);
    magma(t);
    belt(t);
}

//! native validation of the oracles of this family (serpent, twofish, cast6) against the repository's vectors
//! and the specifications' own test vectors
#![allow(unused)]
use crate::T;
use refmodels::{cast6 as c6, serpent as sp, twofish as tf};

fn blk(b: &[u8]) -> [u8; 16] {
    b.try_into().unwrap()
}
fn unhex(s: &str) -> Vec<u8> {
    (0..s.len() / 2).map(|i| u8::from_str_radix(&s[2 * i..2 * i + 2], 16).unwrap()).collect()
}

pub fn run(repo: &str, t: &mut T) {
    // ---- Serpent: every .blb of serpent/tests/data (NESSIE vectors; key length taken from the vector)
    for f in ["serpent128", "serpent192", "serpent256"] {
        t.kat(repo, &format!("serpent/tests/data/{f}.blb"), f, &|k, p| sp::encrypt(k, &blk(p)).to_vec(), &|k, c| sp::decrypt(k, &blk(c)).to_vec());
    }
    // short keys == the padded 256-bit key (append bit 1, then zeros), for every byte length 16..=31
    let mut ok = true;
    for len in 16..32usize {
        let key: Vec<u8> = (0..len).map(|i| (i * 37 + 11) as u8).collect();
        let mut full = [0u8; 32];
        full[..len].copy_from_slice(&key);
        full[len] = 1;
        let p = [0x5au8; 16];
        ok &= sp::encrypt(&key, &p) == sp::encrypt(&full, &p);
        ok &= sp::decrypt(&key, &sp::encrypt(&key, &p)) == p;
    }
    t.check("serpent short-key padding", ok);
    // inverse S-box tables really invert; every S-box is a permutation
    let mut ok = true;
    for i in 0..8 {
        let inv = sp::sbox_inv_table(i);
        for x in 0..16 {
            ok &= inv[sp::SBOX[i][x] as usize] as usize == x;
        }
        let w = [0x0123_4567u32, 0x89ab_cdef, 0xdead_beef, 0x0bad_f00d];
        ok &= sp::apply_s_inv(i, sp::apply_s(i, w)) == w;
        ok &= sp::lt_inv(sp::lt(w)) == w;
    }
    t.check("serpent sbox/lt inverses", ok);

    // ---- Twofish (no .blb in the crate): vectors of the paper / ECB_IVAL.TXT, ECB_TBL.TXT
    let z = [0u8; 16];
    t.check("twofish paper 128", tf::encrypt(&[0u8; 16], &z).to_vec() == unhex("9F589F5CF6122C32B6BFEC2F2AE8C35A"));
    let k192 = unhex("0123456789ABCDEFFEDCBA98765432100011223344556677");
    t.check("twofish paper 192", tf::encrypt(&k192, &z).to_vec() == unhex("CFD1D2E5A9BE9CDF501F13B892BD2248"));
    let k256 = unhex("0123456789ABCDEFFEDCBA987654321000112233445566778899AABBCCDDEEFF");
    t.check("twofish paper 256", tf::encrypt(&k256, &z).to_vec() == unhex("37527BE0052334B89F0CFCCAE87CFA20"));
    // expanded key of the paper's 128-bit example (all-zero key) and S-box keys of the 192/256-bit examples
    let k = tf::key_schedule_with(&[0u8; 16], 2, tf::h_key);
    t.check(
        "twofish paper subkeys",
        k[..8] == [0x52C54DDE, 0x11F0626D, 0x7CAC9D4A, 0x4D1B4AAA, 0xB7B83A10, 0x1E7D0BEB, 0xEE9C341F, 0xCFE14BE4] && k[38] == 0xF298311E && k[39] == 0x696EA672,
    );
    let s = tf::sbox_key(&k256, 4);
    t.check("twofish paper S-box key", s == [0xB89FF6F2, 0xB255BC4B, 0x45661061, 0x8E4447F7]);
    let k = tf::key_schedule_with(&k256, 4, tf::h_key);
    t.check("twofish paper subkeys 256", k[0] == 0x5EC769BF && k[1] == 0x44D13C60 && k[39] == 0xF0D54DCD);
    // ECB_TBL.TXT iteration (the chain also used by the repository's tests): entries I=1..5 and I=48
    for (klen, exp) in [
        (16usize, ["9F589F5CF6122C32B6BFEC2F2AE8C35A", "D491DB16E7B1C39E86CB086B789F5419", "019F9809DE1711858FAAC3A3BA20FBC3", "6363977DE839486297E661C6C9D668EB", "816D5BD0FAE35342BF2A7412C246F752", "6B459286F3FFD28D49F15B1581B08E42"]),
        (24, ["EFA71F788965BD4453F860178FC19101", "88B2B2706B105E36B446BB6D731A1E88", "39DA69D6BA4997D585B6DC073CA341B2", "182B02D81497EA45F9DAACDC29193A65", "7AFF7A70CA2FF28AC31DD8AE5DAAAB63", "F0AB73301125FA21EF70BE5385FB76B6"]),
        (32, ["57FF739D4DC92C1BD7FC01700CC8216F", "D43BB7556EA32E46F2A282B7D45B4E0D", "90AFE91BB288544F2C32DC239B2635E6", "6CB4561C40BF0A9705931CB6D408E7FA", "3059D6D61753B958D92F4781C8640E58", "431058F4DBC7F734DA4F02F04CC4F459"]),
    ] {
        let mut key = vec![0u8; klen];
        let mut plain = [0u8; 16];
        let mut ok = true;
        for i in 1..50 {
            let ct = tf::encrypt(&key, &plain);
            ok &= tf::decrypt(&key, &ct) == plain;
            let want = match i {
                1..=5 => Some(exp[i - 1]),
                48 => Some(exp[5]),
                _ => None,
            };
            if let Some(w) = want {
                ok &= ct.to_vec() == unhex(w);
            }
            let old: Vec<u8> = key[..16].to_vec();
            key[16..].copy_from_slice(&old[..klen - 16]);
            key[..16].copy_from_slice(&plain);
            plain = ct;
        }
        t.check(&format!("twofish ECB_TBL chain {}", klen * 8), ok);
    }

    // ---- CAST-256 (no .blb in the crate): RFC 2612 appendix A
    for (key, ct) in [
        ("2342bb9efa38542c0af75647f29f615d", "c842a08972b43d20836c91d1b7530f6b"),
        ("2342bb9efa38542cbed0ac83940ac298bac77a7717942863", "1b386c0210dcadcbdd0e41aa08a7a7e8"),
        ("2342bb9efa38542cbed0ac83940ac2988d7c47ce264908461cc1b5137ae6b604", "4f6a2038286897b9c9870136553317fa"),
    ] {
        let k = unhex(key);
        let e = c6::encrypt(&k, &z);
        t.check(&format!("cast6 RFC 2612 A {}", k.len() * 8), e.to_vec() == unhex(ct) && c6::decrypt(&k, &e) == z);
    }
    // 160/224-bit keys are the zero-padded 256-bit keys; Tm/Tr first/last values
    let mut ok = true;
    for len in [16usize, 20, 24, 28] {
        let key: Vec<u8> = (0..len).map(|i| (i * 29 + 3) as u8).collect();
        let mut full = [0u8; 32];
        full[..len].copy_from_slice(&key);
        let p = [0xa7u8; 16];
        ok &= c6::encrypt(&key, &p) == c6::encrypt(&full, &p) && c6::decrypt(&key, &c6::encrypt(&key, &p)) == p;
    }
    let (tm, tr) = c6::tm_tr();
    ok &= tm[0][0] == 0x5a827999 && tm[0][1] == 0xc95c653a && tr[0][0] == 19 && tr[0][1] == 4 && tr[23][7] == 2;
    t.check("cast6 zero padding, Tm/Tr", ok);
}

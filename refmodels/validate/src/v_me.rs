//! oracles written in the main session: SM4, AES
#![allow(unused)]
use crate::T;
fn a16(b: &[u8]) -> [u8; 16] { b.try_into().unwrap() }
pub fn run(repo: &str, t: &mut T) {
    use refmodels::sm4;
    for f in ["sm4"] {
        let rel = format!("sm4/tests/data/{f}.blb");
        if std::path::Path::new(&format!("{repo}/{rel}")).exists() {
            t.kat(repo, &rel, "sm4", &|k, p| sm4::encrypt(&a16(k), &a16(p)).to_vec(), &|k, c| sm4::decrypt(&a16(k), &a16(c)).to_vec());
        }
    }
    // GB/T 32907 example 1
    let k: [u8; 16] = [0x01, 0x23, 0x45, 0x67, 0x89, 0xab, 0xcd, 0xef, 0xfe, 0xdc, 0xba, 0x98, 0x76, 0x54, 0x32, 0x10];
    let c: [u8; 16] = [0x68, 0x1e, 0xdf, 0x34, 0xd2, 0x06, 0x96, 0x5e, 0x86, 0xb3, 0xe9, 0x4f, 0x53, 0x6e, 0x42, 0x46];
    t.check("sm4 standard example 1", sm4::encrypt(&k, &k) == c && sm4::decrypt(&k, &c) == k);

    use refmodels::aes;
    for f in ["aes128", "aes192", "aes256"] {
        let rel = format!("aes/tests/data/{f}.blb");
        t.kat(repo, &rel, f, &|k, p| aes::encrypt(k, &a16(p)).to_vec(), &|k, c| aes::decrypt(k, &a16(c)).to_vec());
        t.kat(repo, &rel, "aes eq-inv-cipher", &|k, p| aes::encrypt(k, &a16(p)).to_vec(), &|k, c| aes::decrypt_eq(k, &a16(c)).to_vec());
    }
    // FIPS-197 Appendix C.1
    let k: Vec<u8> = (0u8..16).collect();
    let p: [u8; 16] = core::array::from_fn(|i| (i as u8) * 0x11);
    let c: [u8; 16] = [0x69, 0xc4, 0xe0, 0xd8, 0x6a, 0x7b, 0x04, 0x30, 0xd8, 0xcd, 0xb7, 0x80, 0x70, 0xb4, 0xc5, 0x5a];
    t.check("aes fips-197 C.1", aes::encrypt(&k, &p) == c && aes::decrypt(&k, &c) == p);
    t.check("aes sbox[0x53]==0xed", aes::sbox(0x53) == 0xed && aes::inv_sbox(0xed) == 0x53);
    ni_models(t);
}

/// The concrete meaning given to the AES-NI intrinsics by /verif/harness/aes/ni_model.rs (AESENC = round_core ^ key, ...)
/// checked against the real instructions of this host on structured and pseudo-random inputs (VERIF_SEED).
#[cfg(target_arch = "x86_64")]
fn ni_models(t: &mut T) {
    use core::arch::x86_64::*;
    use refmodels::aes as ra;
    if !std::is_x86_feature_detected!("aes") {
        println!("oracle aes-ni models            SKIPPED (no AES-NI on this host)");
        return;
    }
    fn to(x: [u8; 16]) -> __m128i { unsafe { core::mem::transmute(x) } }
    fn from(x: __m128i) -> [u8; 16] { unsafe { core::mem::transmute(x) } }
    let mut seed: u64 = std::env::var("VERIF_SEED").ok().and_then(|s| s.parse().ok()).unwrap_or(0) ^ 0x9E3779B97F4A7C15;
    let mut next = move || { seed ^= seed << 13; seed ^= seed >> 7; seed ^= seed << 17; seed };
    let mut inputs: Vec<([u8; 16], [u8; 16])> = Vec::new();
    for i in 0..=255u8 {
        inputs.push(([i; 16], [0; 16]));
        let mut a = [0u8; 16];
        a[(i % 16) as usize] = i;
        inputs.push((a, [i.wrapping_mul(7); 16]));
    }
    for _ in 0..4096 {
        let (a, b, c, d) = (next(), next(), next(), next());
        let mut x = [0u8; 16];
        let mut k = [0u8; 16];
        x[..8].copy_from_slice(&a.to_le_bytes());
        x[8..].copy_from_slice(&b.to_le_bytes());
        k[..8].copy_from_slice(&c.to_le_bytes());
        k[8..].copy_from_slice(&d.to_le_bytes());
        inputs.push((x, k));
    }
    let mut bad = 0usize;
    for (x, k) in &inputs {
        unsafe {
            if from(_mm_aesenc_si128(to(*x), to(*k))) != ra::xor(&ra::round_core(x), k) { bad += 1; }
            if from(_mm_aesenclast_si128(to(*x), to(*k))) != ra::xor(&ra::last_core(x), k) { bad += 1; }
            if from(_mm_aesdec_si128(to(*x), to(*k))) != ra::xor(&ra::inv_round_core(x), k) { bad += 1; }
            if from(_mm_aesdeclast_si128(to(*x), to(*k))) != ra::xor(&ra::inv_last_core(x), k) { bad += 1; }
            if from(_mm_aesimc_si128(to(*x))) != ra::inv_mix_columns(x) { bad += 1; }
            // AESKEYGENASSIST with rcon 0x1b: [SubWord(X1), RotWord(SubWord(X1)) ^ rcon, SubWord(X3), RotWord(SubWord(X3)) ^ rcon]
            let g = from(_mm_aeskeygenassist_si128::<0x1b>(to(*x)));
            let sw = |w: [u8; 4]| [ra::sbox(w[0]), ra::sbox(w[1]), ra::sbox(w[2]), ra::sbox(w[3])];
            let x1 = u32::from_le_bytes(sw([x[4], x[5], x[6], x[7]]));
            let x3 = u32::from_le_bytes(sw([x[12], x[13], x[14], x[15]]));
            let exp = [x1, x1.rotate_right(8) ^ 0x1b, x3, x3.rotate_right(8) ^ 0x1b];
            for i in 0..4 {
                if g[4 * i..4 * i + 4] != exp[i].to_le_bytes() { bad += 1; }
            }
        }
    }
    t.total += inputs.len();
    t.fails += bad;
    println!("oracle aes-ni intrinsic models  real AESENC/AESENCLAST/AESDEC/AESDECLAST/AESIMC/AESKEYGENASSIST vs models: inputs={} mismatches={bad}", inputs.len());
}
#[cfg(not(target_arch = "x86_64"))]
fn ni_models(_t: &mut T) {
}

//! oracles written in the main session: SM4, AES
#![allow(unused)]
use crate::T;
fn a16(b: &[u8]) -> [u8; 16] { b.try_into().unwrap() }
pub fn run(repo: &str, t: &mut T) {
    use refmodels::sm4;
    for f in ["sm4"] {
        let rel = format!("sm4/tests/data/{f}.blb");
        if std::path::Path::new(&format!("{repo}/{rel}")).exists() {
            t.kat(repo, &rel, "sm4", &|k, p| sm4::encrypt(&a16(k), &a16(p)).to_vec(), &|k, c| sm4::decrypt(&a16(k), &a16(c)).to_vec());
        }
    }
    // GB/T 32907 example 1
    let k: [u8; 16] = [0x01, 0x23, 0x45, 0x67, 0x89, 0xab, 0xcd, 0xef, 0xfe, 0xdc, 0xba, 0x98, 0x76, 0x54, 0x32, 0x10];
    let c: [u8; 16] = [0x68, 0x1e, 0xdf, 0x34, 0xd2, 0x06, 0x96, 0x5e, 0x86, 0xb3, 0xe9, 0x4f, 0x53, 0x6e, 0x42, 0x46];
    t.check("sm4 standard example 1", sm4::encrypt(&k, &k) == c && sm4::decrypt(&k, &c) == k);
}

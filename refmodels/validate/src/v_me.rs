//! oracles written in the main session: SM4, AES
#![allow(unused)]
use crate::T;
fn a16(b: &[u8]) -> [u8; 16] { b.try_into().unwrap() }
pub fn run(repo: &str, t: &mut T) {
    use refmodels::sm4;
    for f in ["sm4"] {
        let rel = format!("sm4/tests/data/{f}.blb");
        if std::path::Path::new(&format!("{repo}/{rel}")).exists() {
            t.kat(repo, &rel, "sm4", &|k, p| sm4::encrypt(&a16(k), &a16(p)).to_vec(), &|k, c| sm4::decrypt(&a16(k), &a16(c)).to_vec());
        }
    }
    // GB/T 32907 example 1
    let k: [u8; 16] = [0x01, 0x23, 0x45, 0x67, 0x89, 0xab, 0xcd, 0xef, 0xfe, 0xdc, 0xba, 0x98, 0x76, 0x54, 0x32, 0x10];
    let c: [u8; 16] = [0x68, 0x1e, 0xdf, 0x34, 0xd2, 0x06, 0x96, 0x5e, 0x86, 0xb3, 0xe9, 0x4f, 0x53, 0x6e, 0x42, 0x46];
    t.check("sm4 standard example 1", sm4::encrypt(&k, &k) == c && sm4::decrypt(&k, &c) == k);

    use refmodels::aes;
    for f in ["aes128", "aes192", "aes256"] {
        let rel = format!("aes/tests/data/{f}.blb");
        t.kat(repo, &rel, f, &|k, p| aes::encrypt(k, &a16(p)).to_vec(), &|k, c| aes::decrypt(k, &a16(c)).to_vec());
        t.kat(repo, &rel, "aes eq-inv-cipher", &|k, p| aes::encrypt(k, &a16(p)).to_vec(), &|k, c| aes::decrypt_eq(k, &a16(c)).to_vec());
    }
    // FIPS-197 Appendix C.1
    let k: Vec<u8> = (0u8..16).collect();
    let p: [u8; 16] = core::array::from_fn(|i| (i as u8) * 0x11);
    let c: [u8; 16] = [0x69, 0xc4, 0xe0, 0xd8, 0x6a, 0x7b, 0x04, 0x30, 0xd8, 0xcd, 0xb7, 0x80, 0x70, 0xb4, 0xc5, 0x5a];
    t.check("aes fips-197 C.1", aes::encrypt(&k, &p) == c && aes::decrypt(&k, &c) == p);
    t.check("aes sbox[0x53]==0xed", aes::sbox(0x53) == 0xed && aes::inv_sbox(0xed) == 0x53);
}

//! Native validation of the oracles against the repository's known-answer vectors (tests/data/*.blb)
//! and the standards' own examples.  Exit 0 iff every oracle agrees with every vector.
mod v_a;
mod v_b;
mod v_c;
mod v_d;
mod v_e;
mod v_me;
use blobby::Blob3Iterator;
use std::fs;

pub fn vectors(repo: &str, rel: &str) -> Vec<(Vec<u8>, Vec<u8>, Vec<u8>)> {
    let data = fs::read(format!("{repo}/{rel}")).unwrap_or_else(|e| panic!("{rel}: {e}"));
    Blob3Iterator::new(&data).unwrap().map(|r| { let [k, p, c] = r.unwrap(); (k.to_vec(), p.to_vec(), c.to_vec()) }).collect()
}

pub struct T { pub fails: usize, pub total: usize }
impl T {
    pub fn kat(&mut self, repo: &str, rel: &str, name: &str, enc: &dyn Fn(&[u8], &[u8]) -> Vec<u8>, dec: &dyn Fn(&[u8], &[u8]) -> Vec<u8>) {
        let vs = vectors(repo, rel);
        let mut bad = 0;
        for (k, p, c) in &vs {
            if &enc(k, p) != c || &dec(k, c) != p { bad += 1; }
        }
        self.total += vs.len();
        self.fails += bad;
        println!("oracle {name:24} {rel:40} vectors={} mismatches={bad}", vs.len());
    }
    pub fn check(&mut self, name: &str, ok: bool) {
        self.total += 1;
        if !ok { self.fails += 1; }
        println!("oracle {name:24} {}", if ok { "ok" } else { "MISMATCH" });
    }
}

fn u64be(b: &[u8]) -> u64 { u64::from_be_bytes(b.try_into().unwrap()) }

fn main() {
    let repo = std::env::args().nth(1).unwrap_or("/repo".into());
    let mut t = T { fails: 0, total: 0 };
    use refmodels::des as d;
    t.kat(&repo, "des/tests/data/des.blb", "des", &|k, p| d::encrypt(u64be(k), u64be(p)).to_be_bytes().to_vec(), &|k, c| d::decrypt(u64be(k), u64be(c)).to_be_bytes().to_vec());
    t.kat(&repo, "des/tests/data/tdes.blb", "tdes-ede3", &|k, p| d::tdes_ede3_encrypt([u64be(&k[..8]), u64be(&k[8..16]), u64be(&k[16..])], u64be(p)).to_be_bytes().to_vec(),
        &|k, c| d::tdes_ede3_decrypt([u64be(&k[..8]), u64be(&k[8..16]), u64be(&k[16..])], u64be(c)).to_be_bytes().to_vec());
    t.kat(&repo, "des/tests/data/tdes2.blb", "tdes-ede2", &|k, p| d::tdes_ede3_encrypt([u64be(&k[..8]), u64be(&k[8..16]), u64be(&k[..8])], u64be(p)).to_be_bytes().to_vec(),
        &|k, c| d::tdes_ede3_decrypt([u64be(&k[..8]), u64be(&k[8..16]), u64be(&k[..8])], u64be(c)).to_be_bytes().to_vec());
    t.check("des classic vector", d::encrypt(0x133457799BBCDFF1, 0x0123456789ABCDEF) == 0x85E813540F0AB405);
    t.check("des weak-key list", d::validate_weak_list().is_ok());
    more(&repo, &mut t);
    println!("ORACLE-VALIDATION total={} mismatches={}", t.total, t.fails);
    std::process::exit(if t.fails == 0 { 0 } else { 1 });
}

fn more(_repo: &str, _t: &mut T) {
    v_me::run(_repo, _t);
    v_a::run(_repo, _t);
    v_b::run(_repo, _t);
    v_c::run(_repo, _t);
    v_d::run(_repo, _t);
    v_e::run(_repo, _t);
}

//! native validation of the oracles of this family (rc5, speck, threefish, gift) against the repository's vectors.
//!
//! None of the four crates has `.blb` files: their known-answer vectors are inline in `<crate>/tests/mod.rs`.
//! They are not re-typed here but read from those files at run time (tiny literal scanners below); the expected
//! number of vectors per file is checked so that a scanner that silently finds nothing fails the validation.
#![allow(unused)]
use crate::T;
use refmodels::{gift, rc5, speck, threefish};
use std::fs;

fn unhex(s: &str) -> Vec<u8> {
    let d: Vec<u8> = s.bytes().filter(|c| c.is_ascii_hexdigit()).collect();
    d.chunks(2).map(|p| u8::from_str_radix(std::str::from_utf8(p).unwrap(), 16).unwrap()).collect()
}
/// all string literals in `s`, concatenated
fn strings(s: &str) -> String {
    let mut out = String::new();
    let mut inside = false;
    for c in s.chars() {
        if c == '"' {
            inside = !inside;
        } else if inside {
            out.push(c);
        }
    }
    out
}
/// the arguments of every `hex!( ... )` in `s`, each decoded
fn hex_literals(s: &str) -> Vec<Vec<u8>> {
    let mut v = Vec::new();
    let mut rest = s;
    while let Some(p) = rest.find("hex!(") {
        let after = &rest[p + 5..];
        let end = after.find(')').unwrap();
        v.push(unhex(&strings(&after[..end])));
        rest = &after[end..];
    }
    v
}

// ---------------------------------------------------------------- RC5
fn rc5_crypt<const TT: usize, const C: usize>(w: u32, key: &[u8], blk: &[u8], dec: bool) -> Vec<u8> {
    let s = rc5::expand_key::<TT, C>(w, key);
    let mut b = blk.to_vec();
    rc5::crypt_block(w, &s, &mut b, dec);
    b
}
fn rc5_any(w: u32, r: usize, key: &[u8], blk: &[u8], dec: bool) -> Option<Vec<u8>> {
    Some(match (w, r, key.len()) {
        (8, 12, 4) => rc5_crypt::<26, 4>(w, key, blk, dec),
        (16, 16, 8) => rc5_crypt::<34, 4>(w, key, blk, dec),
        (32, 12, 16) => rc5_crypt::<26, 4>(w, key, blk, dec),
        (32, 16, 16) => rc5_crypt::<34, 4>(w, key, blk, dec),
        (64, 24, 24) => rc5_crypt::<50, 3>(w, key, blk, dec),
        (128, 28, 32) => rc5_crypt::<58, 2>(w, key, blk, dec),
        (32, 12, 0) => rc5_crypt::<26, 1>(w, key, blk, dec),
        _ => return None,
    })
}

fn run_rc5(repo: &str, t: &mut T) {
    for w in [8u32, 16, 32, 64, 128] {
        t.check(&format!("rc5 P_{w},Q_{w} = Odd((e-2)2^w), Odd((phi-1)2^w)"), rc5::pq(w) == rc5::derive_pq(w));
    }
    let src = fs::read_to_string(format!("{repo}/rc5/tests/mod.rs")).unwrap();
    let mut n = 0;
    for f in src.split("#[test]").skip(1) {
        let h = hex_literals(f);
        let p = f.find("RC5<u").unwrap();
        let ty: Vec<&str> = f[p + 4..f[p..].find('>').unwrap() + p].split(',').map(|x| x.trim()).collect();
        let w: u32 = ty[0][1..].parse().unwrap();
        let r: usize = ty[1][1..].parse().unwrap();
        let b: usize = ty[2][1..].parse().unwrap();
        let (key, pt, ct) = (&h[0], &h[1], &h[2]);
        let ok = b == key.len() && rc5_any(w, r, key, pt, false).as_ref() == Some(ct) && rc5_any(w, r, key, ct, true).as_ref() == Some(pt);
        t.check(&format!("rc5-{w}/{r}/{b} rc5/tests/mod.rs"), ok);
        n += 1;
    }
    t.check("rc5 tests/mod.rs: 6 vectors found", n == 6);
    // Rivest's paper, section 6 examples (RC5-32/12/16)
    let z = [0u8; 16];
    t.check("rc5-32/12/16 paper example 1", rc5_any(32, 12, &z, &[0u8; 8], false).unwrap() == unhex("21A5DBEE154B8F6D"));
    t.check(
        "rc5-32/12/16 paper example 2",
        rc5_any(32, 12, &unhex("915F4619BE41B2516355A50110A9CE91"), &unhex("21A5DBEE154B8F6D"), false).unwrap() == unhex("F7C013AC5B2B8952"),
    );
    // b = 0 (c = max(1, 0) = 1): encryption and decryption are inverse and deterministic
    let c0 = rc5_any(32, 12, &[], &[1, 2, 3, 4, 5, 6, 7, 8], false).unwrap();
    t.check("rc5-32/12/0 oracle round trip", rc5_any(32, 12, &[], &c0, true).unwrap() == [1, 2, 3, 4, 5, 6, 7, 8]);
}

// ---------------------------------------------------------------- Speck
fn speck_crypt(bb: u32, kb: u32, key: &[u8], blk: &[u8], dec: bool) -> Vec<u8> {
    let p = speck::params(bb, kb);
    let rk = speck::key_schedule(&p, key);
    let mut b = blk.to_vec();
    speck::crypt_block(&p, &rk, &mut b, dec);
    b
}
fn run_speck(repo: &str, t: &mut T) {
    let src = fs::read_to_string(format!("{repo}/speck/tests/mod.rs")).unwrap();
    let mut n = 0;
    for inv in src.split("new_test!(").skip(1) {
        let body = &inv[..inv.find(");").unwrap()];
        let parts: Vec<&str> = body.split(',').map(|x| x.trim()).collect();
        if !parts[1].starts_with("Speck") {
            continue; // the macro definition itself
        }
        let dims: Vec<u32> = parts[1][5..].split('_').map(|x| x.parse().unwrap()).collect();
        let (key, pt, ct) = (unhex(parts[2]), unhex(parts[3]), unhex(parts[4]));
        let ok = key.len() as u32 * 8 == dims[1]
            && pt.len() as u32 * 8 == dims[0]
            && speck_crypt(dims[0], dims[1], &key, &pt, false) == ct
            && speck_crypt(dims[0], dims[1], &key, &ct, true) == pt;
        t.check(&format!("speck{}/{} speck/tests/mod.rs", dims[0], dims[1]), ok);
        // the key schedule written with the round function == the paper's formulas transcribed directly
        let p = speck::params(dims[0], dims[1]);
        let wb = (p.n / 8) as usize;
        let kw: Vec<u64> = key.chunks(wb).map(speck::word_from_be).collect();
        t.check(
            &format!("speck{}/{} key schedule: R_i form == direct formulas", dims[0], dims[1]),
            speck::key_schedule_words(&p, &kw) == speck::key_schedule_words_direct(&p, &kw) && speck::key_schedule_words(&p, &kw) == speck::key_schedule(&p, &key),
        );
        n += 1;
    }
    t.check("speck tests/mod.rs: 10 vectors found", n == 10);
}

// ---------------------------------------------------------------- Threefish
fn tf_crypt(nw: usize, key: &[u8], tweak: &[u8; 16], blk: &[u8], dec: bool) -> Vec<u8> {
    let mut b = blk.to_vec();
    match nw {
        4 => threefish::crypt_bytes::<4, 19>(key, tweak, &mut b, dec),
        8 => threefish::crypt_bytes::<8, 19>(key, tweak, &mut b, dec),
        _ => threefish::crypt_bytes::<16, 21>(key, tweak, &mut b, dec),
    }
    b
}
/// value of one `Vector` field: `&[0; N]`, `&hex!(..)`, `Some(&hex!(..))`, `None`
fn tf_field(s: &str) -> Option<Vec<u8>> {
    let s = s.trim();
    if s.starts_with("None") {
        return None;
    }
    if let Some(p) = s.find("[0;") {
        let n: usize = s[p + 3..s.find(']').unwrap()].trim().parse().unwrap();
        return Some(vec![0u8; n]);
    }
    Some(unhex(&strings(s)))
}
fn run_threefish(repo: &str, t: &mut T) {
    let src = fs::read_to_string(format!("{repo}/threefish/tests/mod.rs")).unwrap();
    let mut n = 0;
    for sect in src.split("impl_test! {").skip(1) {
        let nw = if sect.contains("Threefish256,") {
            4
        } else if sect.contains("Threefish512,") {
            8
        } else if sect.contains("Threefish1024,") {
            16
        } else {
            continue;
        };
        for (vi, v) in sect.split("Vector {").skip(1).enumerate() {
            let (pk, pt_, pp, pc) = (v.find("key:").unwrap(), v.find("tweak:").unwrap(), v.find("pt:").unwrap(), v.find("ct:").unwrap());
            let key = tf_field(&v[pk + 4..pt_]).unwrap();
            let tweak = tf_field(&v[pt_ + 6..pp]);
            let pt = tf_field(&v[pp + 3..pc]).unwrap();
            let ct = tf_field(&v[pc + 3..]).unwrap();
            // `None` tweak = the plain keyed constructor = zero tweak (the statement of C10)
            let tw: [u8; 16] = tweak.map(|x| x.try_into().unwrap()).unwrap_or([0u8; 16]);
            let ok = key.len() == 8 * nw && pt.len() == 8 * nw && tf_crypt(nw, &key, &tw, &pt, false) == ct && tf_crypt(nw, &key, &tw, &ct, true) == pt;
            t.check(&format!("threefish-{} vector {vi} threefish/tests/mod.rs", 64 * nw), ok);
            n += 1;
        }
    }
    t.check("threefish tests/mod.rs: 10 vectors found", n == 10);
}

// ---------------------------------------------------------------- GIFT
fn run_gift(repo: &str, t: &mut T) {
    let src = fs::read_to_string(format!("{repo}/gift/tests/mod.rs")).unwrap();
    let h = hex_literals(&src);
    t.check("gift tests/mod.rs: 3 keys, 3 plaintexts, 3 ciphertexts found", h.len() == 9);
    for i in 0..3 {
        let key: [u8; 16] = h[i].clone().try_into().unwrap();
        let pt: [u8; 16] = h[3 + i].clone().try_into().unwrap();
        let ct: [u8; 16] = h[6 + i].clone().try_into().unwrap();
        t.check(&format!("gift-128 vector {i} gift/tests/mod.rs"), gift::encrypt(&key, &pt) == ct && gift::decrypt(&key, &ct) == pt);
    }
    // the specification's list of round constants (section 2.2 of the paper, first 16)
    let rc = gift::round_constants();
    t.check(
        "gift round constants (LFSR) = published list",
        rc[..16] == [0x01, 0x03, 0x07, 0x0F, 0x1F, 0x3E, 0x3D, 0x3B, 0x37, 0x2F, 0x1E, 0x3C, 0x39, 0x33, 0x27, 0x0E],
    );
    let mut perm_ok = true;
    let mut seen = [false; 128];
    for i in 0..128 {
        perm_ok &= !seen[gift::p128(i)];
        seen[gift::p128(i)] = true;
    }
    // spot values of Table 2 of the paper: P128(1) = 33, P128(4) = 96, P128(115) = 127, P128(127) = 31
    t.check("gift P128 is a permutation with the published spot values", perm_ok && gift::p128(0) == 0 && gift::p128(1) == 33 && gift::p128(2) == 66 && gift::p128(3) == 99 && gift::p128(4) == 96 && gift::p128(115) == 127 && gift::p128(127) == 31);
    let x = 0x0123456789abcdef_fedcba9876543210u128;
    t.check("gift bitslice/unbitslice inverse", gift::unbitslice(&gift::bitslice(x)) == x);
}

pub fn run(repo: &str, t: &mut T) {
    run_rc5(repo, t);
    run_speck(repo, t);
    run_threefish(repo, t);
    run_gift(repo, t);
}

//! native validation of the oracles of this family (ARIA RFC 5794, Camellia RFC 3713) against the repository's
//! vectors and the RFCs' own appendix vectors
#![allow(unused)]
use crate::T;
use refmodels::{aria, camellia};

fn unhex(s: &str) -> Vec<u8> {
    (0..s.len() / 2).map(|i| u8::from_str_radix(&s[2 * i..2 * i + 2], 16).unwrap()).collect()
}
fn b16(b: &[u8]) -> [u8; 16] {
    b.try_into().unwrap()
}

pub fn run(repo: &str, t: &mut T) {
    // ---- Camellia: NESSIE vectors shipped with the crate (every .blb under camellia/tests/data)
    let cenc = |k: &[u8], p: &[u8]| camellia::encrypt(k, &b16(p)).to_vec();
    let cdec = |k: &[u8], c: &[u8]| camellia::decrypt(k, &b16(c)).to_vec();
    t.kat(repo, "camellia/tests/data/camellia128.blb", "camellia128", &cenc, &cdec);
    t.kat(repo, "camellia/tests/data/camellia192.blb", "camellia192", &cenc, &cdec);
    t.kat(repo, "camellia/tests/data/camellia256.blb", "camellia256", &cenc, &cdec);
    // ---- Camellia: RFC 3713 Appendix A
    let pt = unhex("0123456789abcdeffedcba9876543210");
    for (name, key, ct) in [
        ("camellia128 rfc3713 A", "0123456789abcdeffedcba9876543210", "67673138549669730857065648eabe43"),
        ("camellia192 rfc3713 A", "0123456789abcdeffedcba98765432100011223344556677", "b4993401b3e996f84ee5cee7d79b09b9"),
        (
            "camellia256 rfc3713 A",
            "0123456789abcdeffedcba987654321000112233445566778899aabbccddeeff",
            "9acc237dff16d76c20ef7c919e3a7509",
        ),
    ] {
        let (k, c) = (unhex(key), unhex(ct));
        t.check(name, cenc(&k, &pt) == c && cdec(&k, &c) == pt);
    }
    // typed wrappers agree with the slice API
    {
        let k = unhex("0123456789abcdeffedcba987654321000112233445566778899aabbccddeeff");
        let p = b16(&pt);
        let ok = camellia::encrypt128(&k[..16].try_into().unwrap(), &p) == camellia::encrypt(&k[..16], &p)
            && camellia::encrypt192(&k[..24].try_into().unwrap(), &p) == camellia::encrypt(&k[..24], &p)
            && camellia::encrypt256(&k[..32].try_into().unwrap(), &p) == camellia::encrypt(&k[..32], &p)
            && camellia::decrypt128(&k[..16].try_into().unwrap(), &p) == camellia::decrypt(&k[..16], &p)
            && camellia::decrypt192(&k[..24].try_into().unwrap(), &p) == camellia::decrypt(&k[..24], &p)
            && camellia::decrypt256(&k[..32].try_into().unwrap(), &p) == camellia::decrypt(&k[..32], &p);
        t.check("camellia typed wrappers", ok);
    }
    // derived S-boxes: spot values of RFC 3713 2.4.2 tables (SBOX2[0]=224, SBOX3[0]=56, SBOX4[0]=112, SBOX4[1]=44, SBOX2[255]=61, SBOX3[255]=79)
    t.check(
        "camellia sbox2-4 derivation",
        camellia::sbox2(0) == 224
            && camellia::sbox3(0) == 56
            && camellia::sbox4(0) == 112
            && camellia::sbox4(1) == 44
            && camellia::sbox2(255) == 61
            && camellia::sbox3(255) == 79
            && camellia::sbox4(255) == 158,
    );

    // ---- ARIA: the crate ships no .blb files (aria/tests/data does not exist); RFC 5794 Appendix A vectors
    let aenc = |k: &[u8], p: &[u8]| aria::encrypt(k, &b16(p)).to_vec();
    let adec = |k: &[u8], c: &[u8]| aria::decrypt(k, &b16(c)).to_vec();
    let pt = unhex("00112233445566778899aabbccddeeff");
    for (name, key, ct) in [
        ("aria128 rfc5794 A.1", "000102030405060708090a0b0c0d0e0f", "d718fbd6ab644c739da95f3be6451778"),
        ("aria192 rfc5794 A.2", "000102030405060708090a0b0c0d0e0f1011121314151617", "26449c1805dbe7aa25a468ce263a9e79"),
        (
            "aria256 rfc5794 A.3",
            "000102030405060708090a0b0c0d0e0f101112131415161718191a1b1c1d1e1f",
            "f92bd7c79fb72e2f2b8f80c1972d24fc",
        ),
    ] {
        let (k, c) = (unhex(key), unhex(ct));
        t.check(name, aenc(&k, &pt) == c && adec(&k, &c) == pt);
    }
    // generated S-boxes (algebraic definition) against spot values of the tables printed in RFC 5794 2.4.2: SB1[0]=63 SB1[ff]=16, SB2[0..4]=e2 4e 54 fc, SB3[0]=52 SB3[ff]=7d, SB4[0]=30 SB4[ff]=60
    t.check(
        "aria generated sboxes",
        aria::SB1[0] == 0x63
            && aria::SB1[255] == 0x16
            && aria::SB1[0x53] == 0xed
            && aria::SB2[0] == 0xe2
            && aria::SB2[1] == 0x4e
            && aria::SB2[2] == 0x54
            && aria::SB2[3] == 0xfc
            && aria::SB3[0] == 0x52
            && aria::SB3[255] == 0x7d
            && aria::SB4[0] == 0x30
            && aria::SB4[255] == 0x60
            && (0..256).all(|x| aria::SB3[aria::SB1[x] as usize] as usize == x && aria::SB4[aria::SB2[x] as usize] as usize == x),
    );
    // diffusion layer is an involution; SL2 inverts SL1
    {
        let mut ok = true;
        let mut x: u128 = 0x0123456789abcdef_0f1e2d3c4b5a6978;
        for _ in 0..64 {
            ok &= aria::a(aria::a(x)) == x && aria::sl2(aria::sl1(x)) == x && aria::sl1(aria::sl2(x)) == x;
            x = x.wrapping_mul(0x9e3779b97f4a7c15_f39cc0605cedc835).rotate_left(17) ^ 0x5555;
        }
        t.check("aria A involution, SL2=SL1^-1", ok);
    }
    {
        let k = unhex("000102030405060708090a0b0c0d0e0f101112131415161718191a1b1c1d1e1f");
        let p = b16(&pt);
        let ok = aria::encrypt128(&k[..16].try_into().unwrap(), &p) == aria::encrypt(&k[..16], &p)
            && aria::encrypt192(&k[..24].try_into().unwrap(), &p) == aria::encrypt(&k[..24], &p)
            && aria::encrypt256(&k[..32].try_into().unwrap(), &p) == aria::encrypt(&k[..32], &p)
            && aria::decrypt128(&k[..16].try_into().unwrap(), &p) == aria::decrypt(&k[..16], &p)
            && aria::decrypt192(&k[..24].try_into().unwrap(), &p) == aria::decrypt(&k[..24], &p)
            && aria::decrypt256(&k[..32].try_into().unwrap(), &p) == aria::decrypt(&k[..32], &p);
        t.check("aria typed wrappers", ok);
    }
}

//! native validation of the oracles of this family against the repository's vectors
#![allow(unused)]
use crate::T;
pub fn run(repo: &str, t: &mut T) {}

//! native validation of the oracles of this family (blowfish incl. eksblowfish, cast5, idea, rc2, xtea) against the
//! repository's vectors and the specifications' own examples
#![allow(unused)]
use crate::T;
use refmodels::{blowfish as bf, cast5, idea, rc2, xtea};

fn hex(s: &str) -> Vec<u8> {
    let s: Vec<u8> = s.bytes().filter(|c| !c.is_ascii_whitespace()).collect();
    (0..s.len() / 2).map(|i| u8::from_str_radix(std::str::from_utf8(&s[2 * i..2 * i + 2]).unwrap(), 16).unwrap()).collect()
}
fn arr<const N: usize>(b: &[u8]) -> [u8; N] {
    let mut a = [0u8; N];
    a[..b.len()].copy_from_slice(b);
    a
}

// ---- bcrypt (Provos, Mazieres) on top of the oracle's eksblowfish steps: used only to check the oracle against
// ---- published bcrypt hashes
const B64: &[u8; 64] = b"./ABCDEFGHIJKLMNOPQRSTUVWXYZabcdefghijklmnopqrstuvwxyz0123456789";
fn b64_decode(s: &str, nbytes: usize) -> Vec<u8> {
    let mut bits: u32 = 0;
    let mut nb = 0;
    let mut out = vec![];
    for c in s.bytes() {
        let v = B64.iter().position(|&x| x == c).unwrap() as u32;
        bits = (bits << 6) | v;
        nb += 6;
        if nb >= 8 {
            nb -= 8;
            out.push((bits >> nb) as u8);
            bits &= (1 << nb) - 1;
        }
    }
    out.truncate(nbytes);
    out
}
fn bcrypt_raw(cost: u32, salt: &[u8; 16], key: &[u8]) -> Vec<u8> {
    let mut p = bf::P_INIT;
    let mut s = bf::S_INIT;
    let zero = [0u8; 16];
    bf::eks_expand_key(&mut p, &mut s, salt, 16, key, key.len());
    for _ in 0..(1u64 << cost) {
        bf::eks_expand_key(&mut p, &mut s, &zero, 16, key, key.len());
        bf::eks_expand_key(&mut p, &mut s, &zero, 16, salt, 16);
    }
    let mut ct = *b"OrpheanBeholderScryDoubt";
    let mut out = vec![];
    for blk in ct.chunks(8) {
        let mut lr = [u32::from_be_bytes(blk[0..4].try_into().unwrap()), u32::from_be_bytes(blk[4..8].try_into().unwrap())];
        for _ in 0..64 {
            lr = bf::encipher(&p, &s, lr);
        }
        out.extend_from_slice(&lr[0].to_be_bytes());
        out.extend_from_slice(&lr[1].to_be_bytes());
    }
    out.truncate(23);
    out
}
fn bcrypt_check(hash: &str, pw: &[u8]) -> bool {
    // "$2a$05$" + 22 chars salt + 31 chars hash; $2a$: the password is used including its terminating NUL
    let cost: u32 = hash[4..6].parse().unwrap();
    let salt: [u8; 16] = arr(&b64_decode(&hash[7..29], 16));
    let want = b64_decode(&hash[29..], 23);
    let mut key = pw.to_vec();
    key.push(0);
    bcrypt_raw(cost, &salt, &key) == want
}

pub fn run(repo: &str, t: &mut T) {
    // ---------------- Blowfish
    for (file, le) in [("blowfish/tests/data/blowfish.blb", false), ("blowfish/tests/data/blowfish_le.blb", true)] {
        t.kat(repo, file, if le { "blowfish-le" } else { "blowfish" },
            &|k, p| { let (pp, s) = bf::new(k, k.len()); bf::encrypt_block(&pp, &s, &arr(p), le).to_vec() },
            &|k, c| { let (pp, s) = bf::new(k, k.len()); bf::decrypt_block(&pp, &s, &arr(c), le).to_vec() });
    }
    {
        // Schneier's published vectors (ECB, 8-byte keys)
        let v = [("0000000000000000", "0000000000000000", "4EF997456198DD78"), ("FFFFFFFFFFFFFFFF", "FFFFFFFFFFFFFFFF", "51866FD5B85ECB8A"),
                 ("0123456789ABCDEF", "1111111111111111", "61F9C3802281B096"), ("FEDCBA9876543210", "0123456789ABCDEF", "0ACEAB0FC6A0A28D")];
        let mut ok = true;
        for (k, p, c) in v {
            let (k, p, c) = (hex(k), hex(p), hex(c));
            let (pp, s) = bf::new(&k, k.len());
            ok &= bf::encrypt_block(&pp, &s, &arr(&p), false).to_vec() == c && bf::decrypt_block(&pp, &s, &arr(&c), false).to_vec() == p;
        }
        t.check("blowfish schneier vectors", ok);
        // cyclic readers agree: streaming (Cycle) == definition (cyc_word) for every length 1..=72 and 20 words
        let buf: Vec<u8> = (0..72u8).map(|i| i.wrapping_mul(37).wrapping_add(11)).collect();
        let mut ok = true;
        for len in 1..=72usize {
            let mut c = bf::Cycle::new();
            for j in 0..40 {
                ok &= c.word(&buf, len) == bf::cyc_word(&buf, len, 4 * j);
            }
        }
        t.check("blowfish cyclic reader", ok);
        // plain expansion == eks expansion with all-zero salt (oracle-internal consistency)
        let key = hex("00112233445566778899aabbccddeeff0123");
        let (mut p1, mut s1) = (bf::P_INIT, bf::S_INIT);
        let (mut p2, mut s2) = (bf::P_INIT, bf::S_INIT);
        bf::expand_key(&mut p1, &mut s1, &key, key.len());
        bf::eks_expand_key(&mut p2, &mut s2, &[0u8; 16], 16, &key, key.len());
        t.check("eksblowfish zero salt", p1 == p2 && s1 == s2);
        // published bcrypt hashes (OpenBSD / John the Ripper test set)
        t.check("eksblowfish bcrypt U*U", bcrypt_check("$2a$05$CCCCCCCCCCCCCCCCCCCCC.E5YPO9kmyuRGyh0XouQYb4YMJKvyOeW", b"U*U"));
        t.check("eksblowfish bcrypt U*U*", bcrypt_check("$2a$05$CCCCCCCCCCCCCCCCCCCCC.VGOzA784oUp/Z0DY336zx7pLYAy0lwK", b"U*U*"));
        t.check("eksblowfish bcrypt U*U*U", bcrypt_check("$2a$05$XXXXXXXXXXXXXXXXXXXXXOAcXxm9kjPGEMsLznoKqmqw7tc8WCx4a", b"U*U*U"));
        t.check("eksblowfish bcrypt empty", bcrypt_check("$2a$05$CCCCCCCCCCCCCCCCCCCCC.7uG0VCzI2bS7j6ymqJi9CdcdxiRTWNy", b""));
    }
    // ---------------- CAST5
    t.kat(repo, "cast5/tests/data/cast5.blb", "cast5",
        &|k, p| cast5::encrypt(&arr(k), k.len(), &arr(p)).to_vec(), &|k, c| cast5::decrypt(&arr(k), k.len(), &arr(c)).to_vec());
    {
        // RFC 2144 appendix B.1
        let pt = hex("0123456789ABCDEF");
        let v = [("0123456712345678234567893456789A", "238B4FE5847E44B2"), ("01234567123456782345", "EB6A711A2C02271B"), ("0123456712", "7AC816D16E9B302E")];
        let mut ok = true;
        for (k, c) in v {
            let (k, c) = (hex(k), hex(c));
            ok &= cast5::encrypt(&arr(&k), k.len(), &arr(&pt)).to_vec() == c && cast5::decrypt(&arr(&k), k.len(), &arr(&c)).to_vec() == pt;
        }
        t.check("cast5 rfc2144 B.1", ok);
        // RFC 2144 appendix B.2 full maintenance test (1,000,000 iterations)
        let mut a: [u8; 16] = arr(&hex("0123456712345678234567893456789A"));
        let mut b = a;
        for _ in 0..1_000_000 {
            let (km, kr) = cast5::key_schedule(&b);
            let l = cast5::crypt(&km, &kr, 16, &arr(&a[..8]), false);
            let r = cast5::crypt(&km, &kr, 16, &arr(&a[8..]), false);
            a[..8].copy_from_slice(&l);
            a[8..].copy_from_slice(&r);
            let (km, kr) = cast5::key_schedule(&a);
            let l = cast5::crypt(&km, &kr, 16, &arr(&b[..8]), false);
            let r = cast5::crypt(&km, &kr, 16, &arr(&b[8..]), false);
            b[..8].copy_from_slice(&l);
            b[8..].copy_from_slice(&r);
        }
        t.check("cast5 rfc2144 B.2 maintenance", a.to_vec() == hex("EEA9D0A249FD3BA6B3436FB89D6DCA92") && b.to_vec() == hex("B2C95EB00C31AD7180AC05B8E83D696E"));
    }
    // ---------------- IDEA
    t.kat(repo, "idea/tests/data/idea.blb", "idea", &|k, p| idea::encrypt(&arr(k), &arr(p)).to_vec(), &|k, c| idea::decrypt(&arr(k), &arr(c)).to_vec());
    {
        let key: [u8; 16] = arr(&hex("00010002000300040005000600070008"));
        t.check("idea classic vector", idea::encrypt(&key, &arr(&hex("0000000100020003"))).to_vec() == hex("11FBED2B01986DE5"));
        // sub-key table of the classic example (Schneier, Applied Cryptography; also idea/src/tests.rs)
        let ek: [u16; 52] = [
            0x0001, 0x0002, 0x0003, 0x0004, 0x0005, 0x0006, 0x0007, 0x0008, 0x0400, 0x0600, 0x0800, 0x0a00, 0x0c00, 0x0e00, 0x1000, 0x0200,
            0x0010, 0x0014, 0x0018, 0x001c, 0x0020, 0x0004, 0x0008, 0x000c, 0x2800, 0x3000, 0x3800, 0x4000, 0x0800, 0x1000, 0x1800, 0x2000,
            0x0070, 0x0080, 0x0010, 0x0020, 0x0030, 0x0040, 0x0050, 0x0060, 0x0000, 0x2000, 0x4000, 0x6000, 0x8000, 0xa000, 0xc000, 0xe001,
            0x0080, 0x00c0, 0x0100, 0x0140,
        ];
        let dk: [u16; 52] = [
            0xfe01, 0xff40, 0xff00, 0x659a, 0xc000, 0xe001, 0xfffd, 0x8000, 0xa000, 0xcccc, 0x0000, 0x2000, 0xa556, 0xffb0, 0xffc0, 0x52ab,
            0x0010, 0x0020, 0x554b, 0xff90, 0xe000, 0xfe01, 0x0800, 0x1000, 0x332d, 0xc800, 0xd000, 0xfffd, 0x0008, 0x000c, 0x4aab, 0xffe0,
            0xffe4, 0xc001, 0x0010, 0x0014, 0xaa96, 0xf000, 0xf200, 0xff81, 0x0800, 0x0a00, 0x4925, 0xfc00, 0xfff8, 0x552b, 0x0005, 0x0006,
            0x0001, 0xfffe, 0xfffd, 0xc001,
        ];
        t.check("idea sub-key example", idea::expand_key(&key) == ek && idea::invert(&ek) == dk);
        // group laws of the leaf operations, exhaustively on one argument
        let mut ok = true;
        for a in 0..=65535u16 {
            ok &= idea::mul(a, idea::mul_inv(a)) == 1 && idea::add(a, idea::add_inv(a)) == 0 && idea::mul(a, 1) == a;
        }
        t.check("idea inverses", ok);
    }
    // ---------------- RC2 (the repository keeps its vectors as tests/data/<n>.{key,input,output}.bin, see rc2/tests/mod.rs)
    {
        let rd = |n: u32, what: &str| std::fs::read(format!("{repo}/rc2/tests/data/{n}.{what}.bin")).unwrap();
        for (n, eff) in [(1u32, 0usize), (2, 0), (3, 0), (7, 0), (4, 64), (5, 64), (6, 64), (8, 129)] {
            let (k, i, o) = (rd(n, "key"), rd(n, "input"), rd(n, "output"));
            let t1 = if eff == 0 { 8 * k.len() } else { eff };
            let ok = rc2::encrypt(&arr(&k), k.len(), t1, &arr(&i)).to_vec() == o && rc2::decrypt(&arr(&k), k.len(), t1, &arr(&o)).to_vec() == i;
            t.check(&format!("rc2 tests/data/{n}.*.bin (t1={t1})"), ok);
        }
        // RFC 2268 section 5 test vectors: (key, effective bits, plaintext, ciphertext)
        let v = [
            ("0000000000000000", 63, "0000000000000000", "ebb773f993278eff"),
            ("ffffffffffffffff", 64, "ffffffffffffffff", "278b27e42e2f0d49"),
            ("3000000000000000", 64, "1000000000000001", "30649edf9be7d2c2"),
            ("88", 64, "0000000000000000", "61a8a244adacccf0"),
            ("88bca90e90875a", 64, "0000000000000000", "6ccf4308974c267f"),
            ("88bca90e90875a7f0f79c384627bafb2", 64, "0000000000000000", "1a807d272bbe5db1"),
            ("88bca90e90875a7f0f79c384627bafb2", 128, "0000000000000000", "2269552ab0f85ca6"),
            ("88bca90e90875a7f0f79c384627bafb216f80a6f85920584c42fceb0be255daf1e", 129, "0000000000000000", "5b78d3a43dfff1f1"),
        ];
        let mut ok = true;
        for (k, t1, p, c) in v {
            let (k, p, c) = (hex(k), hex(p), hex(c));
            ok &= rc2::encrypt(&arr(&k), k.len(), t1, &arr(&p)).to_vec() == c && rc2::decrypt(&arr(&k), k.len(), t1, &arr(&c)).to_vec() == p;
        }
        t.check("rc2 rfc2268 vectors", ok);
        // the two formulations of the key expansion (RFC loops / index-guarded loops) agree: every T, T1 on a fixed key pattern
        let key: [u8; 128] = core::array::from_fn(|i| (i as u8).wrapping_mul(73).wrapping_add(29));
        let mut ok = true;
        for tl in 1..=128usize {
            for t1 in 1..=1024usize {
                ok &= rc2::expand_key(&key, tl, t1) == rc2::expand_key_g(&key, tl, t1);
            }
        }
        t.check("rc2 expand_key == expand_key_g", ok);
    }
    // ---------------- XTEA
    {
        // the repository's vector (xtea/tests/mod.rs; little-endian words)
        let key: [u8; 16] = *b"0123456789012345";
        let ct = [0xea, 0x0c, 0x3d, 0x7c, 0x1c, 0x22, 0x55, 0x7f];
        t.check("xtea repo vector (LE)", xtea::encrypt(&key, b"ABCDEFGH") == ct && xtea::decrypt(&key, &ct) == *b"ABCDEFGH");
        // widely published word-level vectors (given big-endian in the literature; checked on the word routine)
        let w = |s: &str| -> Vec<u32> { hex(s).chunks(4).map(|c| u32::from_be_bytes(c.try_into().unwrap())).collect() };
        let v = [
            ("000102030405060708090a0b0c0d0e0f", "4142434445464748", "497df3d072612cb5"),
            ("000102030405060708090a0b0c0d0e0f", "4141414141414141", "e78f2d13744341d8"),
            ("000102030405060708090a0b0c0d0e0f", "5a5b6e278948d77f", "4141414141414141"),
            ("00000000000000000000000000000000", "4142434445464748", "a0390589f8b8efa5"),
            ("00000000000000000000000000000000", "4141414141414141", "ed23375a821a8c2d"),
            ("00000000000000000000000000000000", "70e1225d6e4e7655", "4141414141414141"),
        ];
        let mut ok = true;
        for (k, p, c) in v {
            let (k, p, c) = (w(k), w(p), w(c));
            let k = [k[0], k[1], k[2], k[3]];
            ok &= xtea::encipher(&k, [p[0], p[1]]) == [c[0], c[1]] && xtea::decipher(&k, [c[0], c[1]]) == [p[0], p[1]];
        }
        t.check("xtea published vectors (words)", ok);
    }
}
